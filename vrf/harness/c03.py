"""C03 — emitted documents conform to the published wire format."""
import json
import os

from hugr import ops, tys, val
from hugr.build.dfg import Dfg
from hugr.build.function import Module
from hugr.hugr import Hugr
from hugr.hugr.node_port import Node

from vrf.harness import store
from vrf.harness.c02 import deletion_masks, holey_hugr, live_links
from vrf.lemma import P, lemma
from vrf.symx import sym

B = tys.Bool
_SCHEMA = None


def strict_schema_ok(doc: dict) -> bool:
    """Concrete side condition: validate a document against the published strict schema."""
    global _SCHEMA
    import jsonschema
    if _SCHEMA is None:
        root = os.environ.get("VERIF_REPO", "/repo")
        schema = json.load(open(os.path.join(root, "specification/schema/hugr_schema_strict_live.json")))
        _SCHEMA = jsonschema.Draft202012Validator(schema)
    return _SCHEMA.is_valid(doc)


strict_schema_ok._symx_native = True


@lemma("C03", params=lambda: [(m,) for m in deletion_masks(P(4, 5))],
       bounds="as C02 to_serial_from_serial: stores of 4 (quick) / 5 (thorough) nodes with any deletable set of nodes removed, optional index reuse, "
              "<= 2 / 3 optional links incl. order links",
       opts={"max_paths": 400000, "timeout_s": 3000})
def index_sanity(dels):
    n = P(4, 5)
    h, live = holey_hugr(n, dels=dels)
    links = live_links(2, live, max_off=P(1, 2))
    store.attach_links(h, links, {i: 2 for i in live if i != 0})
    s = h._to_serial()
    nn = len(s.nodes)
    sym.check("node_list_has_live_nodes_only", nn == len(live))
    sym.check("node0_is_root_and_own_parent", s.nodes[0].root.parent == 0 and s.nodes[0].root.op == "DFG")
    ok = True
    for i in range(1, nn):
        par = s.nodes[i].root.parent
        ok = ok and 0 <= par < i
    sym.check("parent_is_a_different_earlier_node", ok)
    oke = True
    for (sn, so), (dn, do) in s.edges:
        oke = sym.and_(oke, sn >= 0, sn < nn, dn >= 0, dn < nn, so is not None and so >= 0, do is not None and do >= 0)
    sym.check("edge_endpoints_name_existing_nodes_and_ports", oke)
    sym.check("metadata_list_aligned", s.metadata is not None and len(s.metadata) == nn)
    if not sym.symbolic():
        sym.check("validates_against_strict_schema", strict_schema_ok(json.loads(h.to_json())))
    else:
        sym.check("validates_against_strict_schema", True)


def _edges_of(doc, idx):
    outs = [(e[0][1], e[1]) for e in doc["edges"] if e[0][0] == idx]
    ins = [(e[1][1], e[0]) for e in doc["edges"] if e[1][0] == idx]
    return outs, ins


@lemma("C03", bounds="operations with 0..2 (quick) / 0..3 (thorough) value inputs and outputs; every subset of the outputs connected; "
                     "order edge into and out of the node present or not",
       outside="wider operations", opts={"max_paths": 400000, "timeout_s": 3000})
def port_addressing_custom_op():
    A = P(2, 3)
    ni = sym.concretize(sym.int("n_in", 0, A))
    no = sym.concretize(sym.int("n_out", 0, A))
    d = Dfg(*[B] * ni)
    op = ops.Custom("op", tys.FunctionType([B] * ni, [B] * no), extension="e")
    n = d.add_op(op, *d.inputs())
    used = [j for j in range(no) if sym.concretize(sym.bool(f"use_out{j}"))]
    sym.predicate("last_value_port_unused", no > 0 and (no - 1) not in used)
    sink = d.add_op(ops.Custom("sink", tys.FunctionType([B] * len(used), []), extension="e"), *[n.out(j) for j in used])
    ord_out = sym.concretize(sym.bool("order_out"))
    ord_in = sym.concretize(sym.bool("order_in"))
    if ord_out:
        d.add_state_order(n, sink)
    if ord_in:
        d.add_state_order(d.input_node, n)
    d.set_outputs()
    doc = json.loads(d.hugr.to_json())
    outs, ins = _edges_of(doc, n.idx)
    value_outs = sorted(o for o, _ in outs if o < no)
    sym.check("value_outputs_addressed_by_signature_position", value_outs == used)
    sym.check("value_inputs_addressed_by_signature_position", sorted(o for o, _ in ins if o < ni) == list(range(ni)))
    extra_out = [o for o, _ in outs if o >= no]
    extra_in = [o for o, _ in ins if o >= ni]
    sym.check("order_edge_at_first_port_after_signature", extra_out == ([no] if ord_out else []) and extra_in == ([ni] if ord_in else []))
    # and the Input node (all of whose outputs may be unused) addresses its order edge after its row
    io, _ = _edges_of(doc, d.input_node.idx)
    sym.check("input_node_order_edge_after_row", [o for o, _ in io if o >= ni] == ([ni] if ord_in else []))
    sym.check("validates_against_strict_schema", strict_schema_ok(doc))


@lemma("C03", bounds="callee with 0..2 inputs and outputs, any subset of call outputs used, order edges optional; Call, LoadFunc and LoadConst",
       opts={"max_paths": 400000, "timeout_s": 3000})
def port_addressing_static_ports():
    ni = sym.concretize(sym.int("n_in", 0, 2))
    no = sym.concretize(sym.int("n_out", 0, 2))
    m = Module()
    if sym.concretize(sym.bool("row_polymorphic_callee")):
        # forall r. r ++ [Bool]*ni -> [Bool]*no : the polymorphic body has one more "input" (the row variable) than ... or fewer
        decl = m.declare_function("callee", tys.PolyFuncType([tys.ListParam(tys.TypeTypeParam(tys.TypeBound.Any))],
                                                              tys.FunctionType([tys.RowVariable(0, tys.TypeBound.Any)], [B] * no)))
        inst, targs = tys.FunctionType([B] * ni, [B] * no), [tys.SequenceArg([tys.TypeTypeArg(B)] * ni)]
    else:
        decl = m.declare_function("callee", tys.PolyFuncType([], tys.FunctionType([B] * ni, [B] * no)))
        inst, targs = None, None
    f = m.define_function("main", [B] * ni, [])
    which = sym.concretize(sym.int("which", 0, 2))
    ord_out = sym.concretize(sym.bool("order_out"))
    ord_in = sym.concretize(sym.bool("order_in"))
    if which == 0:
        n = f.call(decl, *f.inputs(), instantiation=inst, type_args=targs)
        nin, nout = ni, no
        used = [j for j in range(no) if sym.concretize(sym.bool(f"use_out{j}"))]
    elif which == 1:
        n = f.load_function(decl, instantiation=inst, type_args=targs)
        nin, nout = 0, 1
        used = [0] if sym.concretize(sym.bool("use_out0")) else []
    else:
        n = f.load(val.TRUE)
        nin, nout = 0, 1
        used = [0] if sym.concretize(sym.bool("use_out0")) else []
    outs_t = [B] * len(used) if which != 1 else ([f.hugr.port_type(n.out(0))] if used else [])
    sink = f.add_op(ops.Custom("sink", tys.FunctionType(outs_t, []), extension="e"), *[n.out(j) for j in used])
    if ord_out:
        f.add_state_order(n, sink)
    if ord_in:
        f.add_state_order(f.input_node, n)
    f.set_outputs()
    doc = json.loads(m.hugr.to_json())
    outs, ins = _edges_of(doc, n.idx)
    static_src = [src for o, src in ins if o == nin]
    sym.check("static_port_immediately_after_value_inputs", len(static_src) == 1)
    sym.check("value_inputs_by_position", sorted(o for o, _ in ins if o < nin) == list(range(nin)))
    sym.check("order_in_after_static_port", [o for o, _ in ins if o > nin] == ([nin + 1] if ord_in else []))
    sym.check("value_outputs_by_position", sorted(o for o, _ in outs if o < nout) == used)
    sym.check("order_out_after_value_outputs", [o for o, _ in outs if o >= nout] == ([nout] if ord_out else []))
    sym.check("validates_against_strict_schema", strict_schema_ok(doc))


_DEF_VALIDATORS = {}


def def_schema_ok(doc: dict, name: str) -> bool:
    """Validate against one definition ($defs/<name>) of the published strict schema."""
    import jsonschema
    if name not in _DEF_VALIDATORS:
        root = os.environ.get("VERIF_REPO", "/repo")
        schema = json.load(open(os.path.join(root, "specification/schema/hugr_schema_strict_live.json")))
        _DEF_VALIDATORS[name] = jsonschema.Draft202012Validator({"$ref": f"#/$defs/{name}", "$defs": schema["$defs"]})
    return _DEF_VALIDATORS[name].is_valid(doc)


def_schema_ok._symx_native = True


@lemma("C03", bounds="packages of 0..2 modules from the 8 program templates and 0..2 extensions (type defs with explicit / from-params bounds, polymorphic "
                     "and binary op defs, values); the std extensions bundled with the package",
       outside="extensions with lowering functions")
def packages_and_extensions_validate():
    from hugr.package import Package
    from vrf.harness import programs
    nm = sym.concretize(sym.int("modules", 0, 2))
    mods = [programs.MODULES[sym.concretize(sym.int(f"m{j}", 0, len(programs.MODULES) - 1)) if j == 0 else 3]().hugr for j in range(nm)]
    ne = sym.concretize(sym.int("extensions", 0, 2))
    exts = [programs.extension_small(f"e{j}", with_binary=(j == 1)) for j in range(ne)]
    pkg = Package(mods, exts)
    doc = json.loads(pkg._to_serial().model_dump_json())
    sym.check("package_document_validates", def_schema_ok(doc, "Package"))
    ok = True
    for e in exts:
        ok = ok and def_schema_ok(json.loads(e.to_json()), "Extension")
    sym.check("extension_documents_validate", ok)
    for m in mods:
        d = json.loads(m.to_json())
        nn = len(d["nodes"])
        sym.check("module_index_sane", d["nodes"][0]["parent"] == 0 and all(0 <= d["nodes"][i]["parent"] < i for i in range(1, nn))
                  and all(0 <= e[0][0] < nn and 0 <= e[1][0] < nn for e in d["edges"]))
    if nm == 0 and ne == 0:
        from hugr import std
        import hugr.std.int, hugr.std.float, hugr.std.logic, hugr.std.collections.array, hugr.std.collections.list, hugr.std.collections.static_array  # noqa: F401,E401
        allok = True
        for e in (std.PRELUDE, hugr.std.int.INT_TYPES_EXTENSION, hugr.std.int.INT_OPS_EXTENSION, hugr.std.int.CONVERSIONS_EXTENSION,
                  hugr.std.float.FLOAT_TYPES_EXTENSION, hugr.std.float.FLOAT_OPS_EXTENSION, hugr.std.logic.EXTENSION,
                  hugr.std.collections.array.EXTENSION, hugr.std.collections.list.EXTENSION, hugr.std.collections.static_array.EXTENSION):
            allok = allok and def_schema_ok(json.loads(e.to_json()), "Extension")
        sym.check("std_extensions_validate", allok)


def _df_ops():
    """(operation, value inputs, value outputs, has static input) for every dataflow operation kind: the counts are written
    down here independently of the library (hugr-core: value_port_count / static_port)."""
    Bt, Qt = tys.Bool, tys.Qubit
    f = tys.FunctionType([Bt, Qt], [Qt])
    poly = tys.PolyFuncType([], tys.FunctionType([Bt], [Bt, Bt]))
    return [
        (ops.Custom("c", tys.FunctionType([Bt, Qt], [Qt, Bt, Bt]), extension="e"), 2, 3, False),
        (ops.Noop(Bt), 1, 1, False),
        (ops.MakeTuple([Bt, Qt]), 2, 1, False),
        (ops.UnpackTuple([Bt, Qt]), 1, 2, False),
        (ops.Tag(1, tys.Sum([[], [Bt, Bt]])), 2, 1, False),
        (ops.CallIndirect(f), 3, 1, False),
        (ops.Call(poly), 1, 2, True),
        (ops.LoadFunc(poly), 0, 1, True),
        (ops.LoadConst(Bt), 0, 1, True),
        (ops.DFG([Bt], [Bt, Qt]), 1, 2, False),
        (ops.CFG([Bt, Bt], [Qt]), 2, 1, False),
        (ops.Conditional(tys.Sum([[Bt], []]), [Qt], [Qt, Qt]), 2, 2, False),
        (ops.TailLoop([Bt], [Qt], [Bt, Bt]), 2, 3, False),
    ]


@lemma("C03", params=lambda: [(i,) for i in range(13)],
       bounds="one task per dataflow operation kind (13); a node of that kind between two neighbours with a state-order edge in, out, both or none and "
              "any subset of its value ports connected (solver-chosen); expected offsets come from a table written independently of the library",
       outside="operation kinds without order ports (Input has no order input, Output no order output)")
def order_port_follows_signature_for_every_op_kind(k):
    op, n_in, n_out, static = _df_ops()[k]
    h = Hugr(ops.DFG([], []))
    src = h.add_node(ops.Custom("src", tys.FunctionType([], [tys.Bool] * 4), extension="e"), num_outs=4)
    n = h.add_node(op)
    dst = h.add_node(ops.Custom("dst", tys.FunctionType([tys.Bool] * 4, []), extension="e"))
    used_in = [j for j in range(n_in) if sym.concretize(sym.bool(f"in{j}"))]
    used_out = [j for j in range(n_out) if sym.concretize(sym.bool(f"out{j}"))]
    for j in used_in:
        h.add_link(src.out(j), n.inp(j))
    for j in used_out:
        h.add_link(n.out(j), dst.inp(j))
    o_in = sym.concretize(sym.bool("order_in"))
    o_out = sym.concretize(sym.bool("order_out"))
    if o_in:
        h.add_order_link(src, n)
    if o_out:
        h.add_order_link(n, dst)
    s = h._to_serial()
    outs = sorted(e[0][1] for e in s.edges if e[0][0] == n.idx)
    ins = sorted(e[1][1] for e in s.edges if e[1][0] == n.idx)
    sym.check("value_ports_written_by_position", [x for x in ins if x < n_in] == used_in and [x for x in outs if x < n_out] == used_out)
    sym.check("order_in_at_first_port_after_value_and_static_inputs", [x for x in ins if x >= n_in] == ([n_in + (1 if static else 0)] if o_in else []))
    sym.check("order_out_at_first_port_after_value_outputs", [x for x in outs if x >= n_out] == ([n_out] if o_out else []))
    # and the reader maps them back to order links (null offsets, the hugr-core way, included)
    import copy
    doc = json.loads(s.model_dump_json())
    if sym.concretize(sym.bool("null_offsets")):
        for e in doc["edges"]:
            if e[0][0] == n.idx and e[0][1] >= n_out:
                e[0][1] = None
            if e[1][0] == n.idx and e[1][1] >= n_in + (1 if static else 0):
                e[1][1] = None
            if e[0][0] == src.idx and e[0][1] >= 4:
                e[0][1] = None
            if e[1][0] == dst.idx and e[1][1] >= 4:
                e[1][1] = None
    h2 = Hugr.load_json(json.dumps(doc))
    sym.check("order_links_read_back_as_order_links", [x.idx for x in h2.incoming_order_links(Node(n.idx))] == ([src.idx] if o_in else [])
              and [x.idx for x in h2.outgoing_order_links(Node(n.idx))] == ([dst.idx] if o_out else []))
    out2 = json.loads(h2.to_json())
    sym.check("resaved_edges_identical", sorted(map(repr, out2["edges"])) == sorted(map(repr, json.loads(s.model_dump_json())["edges"])))
