"""C16 — node handles enumerate exactly their value outputs.

All lemmas are over *all* integers (LIA): output count n >= 0, index i, slice bounds; the only
bound is on the number of ports a slice may select (loop unrolling), stated per lemma.
"""
from hugr.hugr.node_port import InPort, Node, OutPort

from vrf.lemma import P, lemma
from vrf.symx import sym


def _clamp(x, n):
    # property text: negative bounds count from the end, positive overflow is clamped
    return sym.ite(x < 0, n + x, sym.ite(x > n, n, x))


@lemma("C16", unbounded="n >= 0, index, allow_overflow flag: all integers", bounds="none")
def normalize_index_all_integers():
    n = sym.int("n", 0, None)
    i = sym.int("i")
    ov = sym.bool("allow_overflow")
    node = Node(5, _num_out_ports=n)
    try:
        r = node._normalize_index(i, ov)
        raised = False
    except IndexError:
        raised = True
        r = 0
    spec_raise = sym.or_(sym.and_(i >= n, sym.not_(ov)), i < -n)
    sym.check("raises_iff_out_of_range", sym.iff(raised, spec_raise))
    if not raised:
        sym.check("normalized_value", r == _clamp(i, n))
        sym.check("normalized_in_range", sym.and_(r >= 0, r <= n))
        sym.observe("r", r)


@lemma("C16", unbounded="n >= 0 and index i: all integers", bounds="none")
def int_index_matches_python():
    n = sym.int("n", 0, None)
    i = sym.int("i")
    idx = sym.int("idx", 0, None)
    node = Node(idx, _num_out_ports=n)
    try:
        p = node[i]
    except IndexError:
        sym.check("indexerror_only_outside", sym.or_(i >= n, i < -n))
        return
    sym.check("accepts_only_inside", sym.and_(i < n, i >= -n))
    sym.check("is_outport", isinstance(p, OutPort))
    sym.check("offset_python_meaning", p.offset == sym.ite(i >= 0, i, n + i))
    sym.check("same_node", p.node.idx == idx)
    sym.observe("offset", p.offset)


@lemma("C16", unbounded="index i: all integers", bounds="none")
def unknown_count_nonneg_indexing():
    i = sym.int("i")
    node = Node(3)  # no output count
    if sym.concretize(sym.bool("iterate")):
        which = sym.concretize(sym.int("how", 0, 2))
        try:
            if which == 0:
                list(node)
            elif which == 1:
                list(node[:])
            else:
                list(node.outputs())
            sym.check("iteration_without_count_raises_ValueError", False)
        except ValueError:
            sym.check("iteration_without_count_raises_ValueError", True)
        return
    sym.assume(i >= 0)
    p = node[i]
    sym.check("nonneg_index_is_offset", sym.and_(isinstance(p, OutPort), p.offset == i))


def _opt(name):
    if sym.concretize(sym.bool("has_" + name)):
        return sym.int(name)
    return None


@lemma("C16", unbounded="n >= 0, start, stop, step >= 1: all integers (incl. None for each)",
       bounds="slices selecting at most 4 ports (quick) / 7 (thorough): loop unrolling bound, enforced by an assumption and an unwinding assertion",
       outside="slices selecting more ports than the unrolling bound; step <= 0 (excluded by the statement)",
       opts={"quick": {"loop_bound": 6}, "thorough": {"loop_bound": 9}})
def slice_matches_spec():
    L = P(4, 7)
    n = sym.int("n", 0, None)
    start, stop, step = _opt("start"), _opt("stop"), _opt("step")
    if step is not None:
        sym.assume(step >= 1)
    node = Node(2, _num_out_ports=n)
    st = 1 if step is None else step
    s_eff = 0 if start is None else start
    e_eff = n if stop is None else stop
    spec_raise = sym.or_(s_eff < -n, e_eff < -n)
    cs, ce = _clamp(s_eff, n), _clamp(e_eff, n)
    sym.assume(sym.or_(spec_raise, ce - cs <= L * st))
    try:
        ports = list(node[start:stop:step])
        raised = False
    except IndexError:
        raised = True
    sym.check("indexerror_iff_bound_below_minus_n", sym.iff(raised, spec_raise))
    if raised:
        return
    k = len(ports)
    sym.observe("k", k)
    # exactly the arithmetic progression cs, cs+st, ... < ce
    if k == 0:
        sym.check("empty_iff_no_room", cs >= ce)
    else:
        sym.check("length_exact", sym.and_(cs + (k - 1) * st < ce, cs + k * st >= ce))
    for j, p in enumerate(ports):
        sym.check("slice_element", sym.and_(isinstance(p, OutPort), p.offset == cs + j * st, p.node.idx == 2))
        sym.check("slice_element_in_range", sym.and_(p.offset >= 0, p.offset < n))


@lemma("C16", bounds="n in 0..4 (quick) / 0..7 (thorough)", outside="larger n (iteration is n-fold unrolling)",
       opts={"loop_bound": 12})
def iteration_yields_outputs_in_order():
    n = sym.int("n", 0, P(4, 7))
    node = Node(9, _num_out_ports=n)
    how = sym.concretize(sym.int("how", 0, 2))
    if how == 0:
        ports = list(node)
    elif how == 1:
        ports = list(node.outputs())
    else:
        ports = list(node[:])
    sym.check("count", len(ports) == n)
    for j, p in enumerate(ports):
        sym.check("in_order", sym.and_(isinstance(p, OutPort), p.offset == j, p.node.idx == 9))


@lemma("C16", unbounded="n, i, j all integers", bounds="tuples of 2 indices")
def tuple_index():
    n = sym.int("n", 0, None)
    i, j = sym.int("i"), sym.int("j")
    node = Node(1, _num_out_ports=n)
    inside = lambda x: sym.and_(x < n, x >= -n)  # noqa: E731
    try:
        ports = list(node[(i, j)])
    except IndexError:
        sym.check("tuple_indexerror_only_outside", sym.not_(sym.and_(inside(i), inside(j))))
        return
    sym.check("tuple_inside", sym.and_(inside(i), inside(j)))
    sym.check("tuple_values", sym.and_(ports[0].offset == sym.ite(i >= 0, i, n + i), ports[1].offset == sym.ite(j >= 0, j, n + j)))


@lemma("C16", bounds="node indices in 0..2, offsets in 0..1; counts/metadata arbitrary among {None,0,2}/{{}, {'a':1}}",
       outside="larger indices (equality/hash are structural on (idx, offset))")
def ports_compare_and_hash_by_idx_offset():
    i1, i2 = sym.int("i1", 0, 2), sym.int("i2", 0, 2)
    o1, o2 = sym.int("o1", 0, 1), sym.int("o2", 0, 1)
    counts = [None, 0, 2]
    metas = [{}, {"a": 1}]
    c1 = counts[sym.concretize(sym.int("c1", 0, 2))]
    c2 = counts[sym.concretize(sym.int("c2", 0, 2))]
    m1 = metas[sym.concretize(sym.int("m1", 0, 1))]
    m2 = metas[sym.concretize(sym.int("m2", 0, 1))]
    n1, n2 = Node(i1, m1, c1), Node(i2, m2, c2)
    same = sym.and_(i1 == i2, o1 == o2)
    out = sym.concretize(sym.bool("out"))
    p1 = OutPort(n1, o1) if out else InPort(n1, o1)
    p2 = OutPort(n2, o2) if out else InPort(n2, o2)
    eq = p1 == p2
    sym.check("eq_iff_same_idx_offset", sym.iff(eq, same))
    sym.check("node_eq_iff_same_idx", sym.iff(n1 == n2, i1 == i2))
    if eq:
        sym.check("hash_consistent", hash(p1) == hash(p2))
        sym.check("set_dedup", len({p1, p2}) == 1)
    sym.check("in_vs_out_differ", OutPort(n1, o1) != InPort(n1, o1))


@lemma("C16", unbounded="node index", bounds="none")
def node_as_wire_is_output_zero():
    i = sym.int("i", 0, None)
    n = Node(i, _num_out_ports=sym.int("n", 0, None))
    p = n.out_port()
    sym.check("wire_is_out0", sym.and_(isinstance(p, OutPort), p.offset == 0, p.node.idx == i))
    q = OutPort(n, sym.int("o", 0, None))
    sym.check("port_as_wire_is_itself", q.out_port() is q)


# ---------------------------------------------------------------------------
# L2: handles returned by the graph / the builders carry the right output count
# ---------------------------------------------------------------------------
def _outs(handle):
    return [p.offset for p in handle]


@lemma("C16", bounds="explicit counts 0..3; slot fresh or reused after deleting a node that had a different count; count given or not",
       outside="larger counts (the count is stored, not computed)")
def add_node_handle_count():
    from hugr import ops, tys
    from hugr.hugr import Hugr
    h = Hugr()
    op = ops.Custom("x", tys.FunctionType.empty(), extension="e")
    if sym.concretize(sym.bool("reuse_slot")):
        old = h.add_node(op, num_outs=sym.concretize(sym.int("old_count", 0, 3)))
        h.delete_node(old)
    if sym.concretize(sym.bool("count_given")):
        k = sym.concretize(sym.int("count", 0, 3))
        n = h.add_node(op, num_outs=k)
        sym.check("explicit_count_enumerated", _outs(n) == list(range(k)) and _outs(n.outputs()) == list(range(k)))
        sym.check("children_handle_has_count", _outs(h.children()[-1]) == list(range(k)))
    else:
        n = h.add_node(op)
        try:
            list(n)
            sym.check("no_count_iteration_raises_ValueError", False)
        except ValueError:
            sym.check("no_count_iteration_raises_ValueError", True)
        sym.check("no_count_nonneg_index_ok", n[5].offset == 5)


@lemma("C16", bounds="builder entry points add_op/add/extend/call (monomorphic and row-polymorphic at rows of 0..3 types)/load/load via const node/add_nested/add_cfg/add_conditional/add_if/add_tail_loop and the "
                     "four insert_*; operation / container output counts 0..2 (incl. zero outputs)",
       outside="wider operations", opts={"max_paths": 100000, "timeout_s": 1500})
def builder_handles_know_their_outputs():
    from hugr import ops, tys, val
    from hugr.build.cfg import Cfg
    from hugr.build.cond_loop import Conditional, TailLoop
    from hugr.build.dfg import Dfg
    from hugr.build.function import Module
    Bo = tys.Bool
    k = sym.concretize(sym.int("n_out", 0, 2))
    how = sym.concretize(sym.int("entry_point", 0, 14))
    d = Dfg(Bo, Bo)
    a, b = d.inputs()
    cu = ops.Custom("op", tys.FunctionType([Bo], [Bo] * k), extension="e")
    if how == 0:
        n = d.add_op(cu, a)
    elif how == 1:
        n = d.add(cu(a))
    elif how == 2:
        n = d.extend(cu(a), cu(b))[1]
    elif how == 3:
        m = Module()
        decl = m.declare_function("f", tys.PolyFuncType([], tys.FunctionType([Bo], [Bo] * k)))
        f = m.define_function("main", [Bo])
        n = f.call(decl, *f.inputs())
    elif how == 4:
        n = d.load(val.TRUE)
        k = 1
    elif how == 5:
        n = d.load(d.add_const(val.Tuple(val.TRUE)))
        k = 1
    elif how == 6:
        with d.add_nested(a, b) as nested:
            nested.set_outputs(*nested.inputs()[:k])
        n = nested.parent_node
        sym.check("container_to_node_same_handle", _outs(nested) == list(range(k)))
    elif how == 7:
        with d.add_cfg(a, b) as cfg:
            with cfg.add_entry() as e:
                e.set_single_succ_outputs(*e.inputs()[:k])
            cfg.branch_exit(e[0])
        n = cfg.parent_node
        sym.check("container_to_node_same_handle", _outs(cfg) == list(range(k)))
    elif how == 8:
        with d.add_conditional(a, b, b) as cond:
            for j in range(2):
                with cond.add_case(j) as cs:
                    cs.set_outputs(*cs.inputs()[:k])
        n = cond.parent_node
        sym.check("container_to_node_same_handle", _outs(cond) == list(range(k)))
    elif how == 9:
        if_ = d.add_if(a, b, b)
        if_.set_outputs(*if_.inputs()[:k])
        else_ = if_.add_else()
        else_.set_outputs(*else_.inputs()[:k])
        # (the finished conditional's handle, asked of either of the two builder objects)
        n = else_.conditional_node if sym.concretize(sym.bool("handle_from_else_builder")) else if_.conditional_node
    elif how == 10:
        with d.add_tail_loop([a], [b, b][:k]) as tl:
            brk = tl.add_op(ops.Tag(1, tys.Sum([[Bo], []])))
            tl.set_loop_outputs(brk, *tl.inputs()[1:])
        n = tl.parent_node
        sym.check("container_to_node_same_handle", _outs(tl) == list(range(k)))
    elif how == 11:
        inner = Dfg(Bo, Bo)
        inner.set_outputs(*inner.inputs()[:k])
        n = d.insert_nested(inner, a, b)
    elif how == 12:
        inner = Cfg(Bo, Bo)
        with inner.add_entry() as e:
            e.set_single_succ_outputs(*e.inputs()[:k])
        inner.branch_exit(e[0])
        n = d.insert_cfg(inner, a, b)
    elif how == 13:
        inner = Conditional(tys.Bool, [Bo, Bo])
        for j in range(2):
            with inner.add_case(j) as cs:
                cs.set_outputs(*cs.inputs()[:k])
        n = d.insert_conditional(inner, a, b, b)
    else:
        # call of a row-polymorphic function (forall r. r -> Bool, r) at a row of k-1 types: the instantiated arity is not the body's
        m = Module()
        rv = tys.RowVariable(0, tys.TypeBound.Any)
        decl = m.declare_function("rowpoly", tys.PolyFuncType([tys.ListParam(tys.TypeTypeParam(tys.TypeBound.Any))], tys.FunctionType([rv], [Bo, rv])))
        k = sym.concretize(sym.int("row_len", 0, 3)) + 1
        f = m.define_function("main", [Bo] * (k - 1))
        n = f.call(decl, *f.inputs(), instantiation=tys.FunctionType([Bo] * (k - 1), [Bo] * k),
                   type_args=[tys.SequenceArg([tys.TypeTypeArg(Bo)] * (k - 1))])
    sym.check("handle_enumerates_value_outputs", _outs(n) == list(range(k)))
    sym.check("unpacking_works", len(list(n[:])) == k)
    try:
        n[k]
        sym.check("index_past_last_output_raises", False)
    except IndexError:
        sym.check("index_past_last_output_raises", True)
