"""C01 — builder-constructed HUGRs satisfy the specification's validity rules.

Integration: bounded program templates with solver-chosen steps and wires; every explored
program is serialised with the real `to_json()` and the document is judged by the reference
validator transcription (oracle/validate.py).  The per-mechanism lemmas this rests on are
discharged under their own properties (order edges / refusals: C13 wire_* lemmas; port addressing:
C03; container rows and handle counts: C06 / C16; constants: C14) and are listed in DESIGN.md.
"""
import json

from hugr import ops, tys, val
from hugr.build.function import Module
from hugr.build.tracked_dfg import TrackedDfg

from vrf.harness import programs
from vrf.lemma import P, lemma, native
from vrf.oracle import validate
from vrf.symx import sym

B, Q = tys.Bool, tys.Qubit
N_STEPS_KINDS = 17


@native
def _judge(h):
    return validate.validate(json.loads(h.to_json()))


def _pick(tag, wires):
    return wires[sym.concretize(sym.int(tag, 0, len(wires) - 1))]


def step(f, m, decl, g, kind, tag, bools, qubit, nodes):
    """Apply one builder step to function builder `f`. Returns the (possibly new) qubit wire."""
    if kind == 0:      # custom op with an unused trailing output
        n = f.add_op(programs.cust("two_out", [B], [B, B]), _pick(tag + ".w", bools))
        bools.append(n[0])
        nodes.append(n)
    elif kind == 1:    # linear value threaded through an op
        n = f.add_op(programs.cust("q", [Q], [Q]), qubit)
        qubit = n[0]
        nodes.append(n)
    elif kind == 2:    # tuple round trip
        mk = f.add(ops.MakeTuple()(_pick(tag + ".a", bools), _pick(tag + ".b", bools)))
        un = f.add(ops.UnpackTuple()(mk[0]))
        bools.append(un[1])
        nodes += [mk, un]
    elif kind == 3:    # sum construction
        n = f.add_op(ops.Tag(1, tys.Sum([[], [B]])), _pick(tag + ".w", bools))
        nodes.append(n)
        sink = f.add_op(programs.cust("use_sum", [tys.Option(B)], []), n[0])
        nodes.append(sink)
    elif kind == 4:    # constants
        n = f.load(val.Tuple(val.TRUE, val.Some(val.FALSE)) if sym.concretize(sym.bool(tag + ".tuple")) else val.TRUE)
        nodes.append(n)
        if h_is_bool(f, n):
            bools.append(n[0])
        else:
            nodes.append(f.add_op(programs.cust("use_t", [f.hugr.port_type(n.out(0))], []), n[0]))
    elif kind == 5:    # call of a declared / defined function
        n = f.call(decl if sym.concretize(sym.bool(tag + ".decl")) else g, _pick(tag + ".w", bools))
        bools.append(n[0])
        nodes.append(n)
    elif kind == 6:    # function as a value, called indirectly
        lf = f.load_function(g)
        n = f.add_op(ops.CallIndirect(), lf, _pick(tag + ".w", bools))
        bools.append(n[0])
        nodes += [lf, n]
    elif kind == 7:    # nested region fed by a non-local (Ext) wire
        with f.add_nested(qubit) as inner:
            (qi,) = inner.inputs()
            x = inner.add_op(programs.cust("use_outer", [B, Q], [Q, B]), _pick(tag + ".w", bools), qi)
            inner.set_outputs(x[0], x[1])
        qubit = inner[0]
        bools.append(inner[1])
        nodes.append(inner.parent_node)
    elif kind == 8:    # conditional
        with f.add_conditional(_pick(tag + ".w", bools), qubit) as cond:
            for j in range(2):
                with cond.add_case(j) as case:
                    y = case.add_op(programs.cust(f"case{j}", [Q], [Q]), *case.inputs())
                    case.set_outputs(y[0])
        qubit = cond[0]
        nodes.append(cond.parent_node)
    elif kind == 9:    # if / else
        if_ = f.add_if(_pick(tag + ".w", bools), qubit)
        if_.set_outputs(*if_.inputs())
        else_ = if_.add_else()
        z = else_.add_op(programs.cust("else", [Q], [Q]), *else_.inputs())
        else_.set_outputs(z[0])
        qubit = else_.conditional_node[0]
        nodes.append(else_.conditional_node)
    elif kind == 10:   # tail loop
        with f.add_tail_loop([_pick(tag + ".w", bools)], [qubit]) as tl:
            bi, qq = tl.inputs()
            brk = tl.add_op(ops.Tag(1, tys.Sum([[B], [B, B]])), bi, bi)   # break row longer than continue row
            tl.set_loop_outputs(brk, qq)
        bools.append(tl[0])
        *_, qubit = tl                                                   # unpack: the linear value is the last output
        nodes.append(tl.parent_node)
    elif kind == 11:   # CFG with a dominator edge
        with f.add_cfg(_pick(tag + ".w", bools), qubit) as cfg:
            with cfg.add_entry() as entry:
                be, qe = entry.inputs()
                keep = entry.add_op(programs.cust("mk", [B], [B]), be)
                entry.set_single_succ_outputs(qe)
            with cfg.add_successor(entry[0]) as blk:
                (qb,) = blk.inputs()
                x = blk.add_op(programs.cust("use_dom", [B, Q], [Q]), keep[0], qb)
                blk.set_single_succ_outputs(x[0])
            cfg.branch_exit(blk[0])
        qubit = cfg[0]
        nodes.append(cfg.parent_node)
    elif kind == 14:   # call of a row-polymorphic function at arity 2 (instantiated arity != polymorphic body's)
        rowp = m.declare_function(f"rowpoly_{tag}", tys.PolyFuncType([tys.ListParam(tys.TypeTypeParam(tys.TypeBound.Any))],
                                                                      tys.FunctionType([tys.RowVariable(0, tys.TypeBound.Any)], [tys.RowVariable(0, tys.TypeBound.Any)])))
        n = f.call(rowp, _pick(tag + ".a", bools), _pick(tag + ".b", bools), instantiation=tys.FunctionType([B, B], [B, B]),
                   type_args=[tys.SequenceArg([tys.TypeTypeArg(B), tys.TypeTypeArg(B)])])
        bools.append(n[1])
        nodes.append(n)
    elif kind == 13:   # a wire crossing TWO region boundaries (into a case body of a conditional inside a nested DFG)
        w = _pick(tag + ".w", bools)
        with f.add_nested(qubit) as outer:
            (qo,) = outer.inputs()
            k1 = outer.load(val.TRUE)
            with outer.add_conditional(k1, qo) as cond:
                for j in range(2):
                    with cond.add_case(j) as case:
                        y = case.add_op(programs.cust(f"deep{j}", [B, Q], [Q]), w, *case.inputs())
                        case.set_outputs(y[0])
            outer.set_outputs(cond[0])
        qubit = outer[0]
        nodes.append(outer.parent_node)
    elif kind == 15:   # CFG whose entry branches two ways; the branches meet again in a merge block or at the exit (a block with two predecessors)
        with f.add_cfg(_pick(tag + ".w", bools), qubit) as cfg:
            with cfg.add_entry() as entry:
                be, qe = entry.inputs()
                entry.set_block_outputs(be, qe)
            with cfg.add_successor(entry[0]) as left:
                (ql,) = left.inputs()
                left.set_single_succ_outputs(ql)
            with cfg.add_successor(entry[1]) as right:
                (qr,) = right.inputs()
                x = right.add_op(programs.cust("right", [Q], [Q]), qr)
                right.set_single_succ_outputs(x[0])
            if sym.concretize(sym.bool(tag + ".merge_block")):
                with cfg.add_successor(left[0]) as merge:
                    (qm,) = merge.inputs()
                    merge.set_single_succ_outputs(qm)
                cfg.branch(right[0], merge)
                cfg.branch_exit(merge[0])
            else:
                cfg.branch_exit(left[0])
                cfg.branch_exit(right[0])
        qubit = cfg[0]
        nodes.append(cfg.parent_node)
    elif kind == 16:   # CFG whose entry branches on a sum with DIFFERENT variant rows; the first exit leaves through branch 1
        with f.add_cfg(_pick(tag + ".w", bools), qubit) as cfg:
            with cfg.add_entry() as entry:
                be, qe = entry.inputs()
                s_ = entry.add_op(ops.Tag(1, tys.Sum([[Q], [Q, B]])), qe, be)
                entry.set_block_outputs(s_)
            cfg.branch_exit(entry[1])                       # exit row = variant 1 = [Q, B]
            with cfg.add_successor(entry[0]) as other:      # variant 0 = [Q]
                (qo,) = other.inputs()
                other.set_single_succ_outputs(qo, other.load(val.TRUE))
            cfg.branch_exit(other[0])
        qubit = cfg[0]
        bools.append(cfg[1])
        nodes.append(cfg.parent_node)
    else:              # (kind 12) explicit state order between two earlier sibling nodes (any earlier -> any later one)
        if len(nodes) >= 2:
            j = sym.concretize(sym.int(tag + ".to", 1, len(nodes) - 1))
            i = sym.concretize(sym.int(tag + ".from", 0, j - 1))
            f.add_state_order(nodes[i], nodes[j])
    return qubit


def h_is_bool(f, n):
    return f.hugr.port_type(n.out(0)) == B


@lemma("C01", params=[(k,) for k in range(N_STEPS_KINDS)],
       bounds="module programs of 2 (quick) / 3 (thorough) builder steps inside a function over 17 step kinds (custom op with unused output, linear "
              "threading, tuple ops, Tag, constants, call, load_function + CallIndirect, nested DFG with an Ext wire, conditional, if/else, tail loop, "
              "CFG with a Dom wire, CFG with a two-way branch that merges again, CFG leaving first through branch 1 of a sum with different variant rows, a wire crossing two region boundaries, a row-polymorphic call, explicit state order) plus an optional final state-order edge between any two of the nodes created; wires chosen by the solver; one task per first step; linear value consumed exactly once",
       outside="longer programs; extension-delta / type-argument rules (not listed by the property)",
       opts={"max_paths": 200000, "timeout_s": 2500})
def builder_programs_are_valid(first):
    m = Module()
    decl = m.declare_function("ext_fn", tys.PolyFuncType([], tys.FunctionType([B], [B])))
    g = m.define_function("g", [B], [B])
    g.set_outputs(*g.inputs())
    f = m.define_function("main", [B, Q])
    b, q = f.inputs()
    bools, nodes = [b], []
    q = step(f, m, decl, g, first, "s0", bools, q, nodes)
    for s in range(1, P(2, 3)):
        kind = sym.concretize(sym.int(f"s{s}.kind", 0, N_STEPS_KINDS - 1))
        q = step(f, m, decl, g, kind, f"s{s}", bools, q, nodes)
    if len(nodes) >= 2 and sym.concretize(sym.bool("final_order_edge")):
        step(f, m, decl, g, 12, "ord", bools, q, nodes)   # a state-order edge between ANY earlier and ANY later node of the program
    f.set_outputs(q, bools[-1])
    errs = _judge(m.hugr)
    sym.check("serialized_program_is_valid", errs == [], errs[:4])


@lemma("C01", params=lambda: [(i,) for i in range(len(programs.MODULES))],
       bounds="the 8 program templates (incl. unusual attribute values, merging CFG branches, tracked circuit inserted into a function, unicode names, repeated calls / loads)")
def template_programs_are_valid(k):
    h = programs.MODULES[k]().hugr
    errs = _judge(h)
    sym.check("template_is_valid", errs == [], errs[:4])


@lemma("C01", bounds="dataflow-rooted, CFG-rooted, conditional-rooted and loop-rooted HUGRs built by the standalone builders and then inserted with the "
                     "insert_* wrappers into a function (0..2 extra operations, solver-chosen)")
def inserted_builders_are_valid():
    from hugr.build.cfg import Cfg
    from hugr.build.cond_loop import Conditional, TailLoop
    from hugr.build.dfg import Dfg
    m = Module()
    f = m.define_function("main", [B, Q])
    b, q = f.inputs()
    kind = sym.concretize(sym.int("kind", 0, 3))
    loads = sym.concretize(sym.bool("body_loads_a_constant"))   # the standalone builder's body loads a constant (where does the Const node go?)
    if kind == 0:
        inner = Dfg(B, Q)
        x = inner.add_op(programs.cust("x", [B, Q], [Q]), *inner.inputs())
        if loads:
            inner.add_op(programs.cust("use_k", [B], []), inner.load(val.TRUE))
        inner.set_outputs(x[0])
        n = f.insert_nested(inner, b, q)
    elif kind == 1:
        inner = Cfg(B, Q)
        with inner.add_entry() as e:
            if loads:
                e.add_op(programs.cust("use_k", [B], []), e.load(val.TRUE))
            e.set_single_succ_outputs(e.inputs()[1])
        inner.branch_exit(e[0])
        n = f.insert_cfg(inner, b, q)
    elif kind == 2:
        inner = Conditional(tys.Bool, [Q])
        for j in range(2):
            with inner.add_case(j) as cs:
                if loads:
                    cs.add_op(programs.cust("use_k", [B], []), cs.load(val.FALSE))
                cs.set_outputs(*cs.inputs())
        n = f.insert_conditional(inner, b, q)
    else:
        inner = TailLoop([B], [Q])
        with inner:
            bi, qq = inner.inputs()
            if loads:
                inner.add_op(programs.cust("use_k", [B], []), inner.load(val.TRUE))
            inner.set_loop_outputs(inner.add_op(ops.Tag(1, tys.Sum([[B], []])), ), qq)
        n = f.insert_tail_loop(inner, [b], [q])
    f.set_outputs(n[0])
    errs = _judge(m.hugr)
    sym.check("inserted_program_is_valid", errs == [], errs[:4])
