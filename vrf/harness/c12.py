"""C12 — the model export is well scoped and faithful to the HUGR."""
import os

from hugr import ops, tys, val
from hugr.build.function import Module

from vrf.harness import programs
from vrf.lemma import P, lemma, native
from vrf.oracle import model_check
from vrf.symx import sym

B, Q = tys.Bool, tys.Qubit


@native
def _check(h, m):
    return model_check.check(h, m)


@native
def _program(which, flags):
    """Module-rooted programs with symbolic variations (unused outputs, order edges, repeated calls / loads, polymorphism)."""
    if which < len(programs.MODULES):
        return programs.MODULES[which]().hugr
    m = Module()
    poly = flags["poly"]
    params = [tys.TypeTypeParam(tys.TypeBound.Any)] if poly else []
    body_t = tys.Variable(0, tys.TypeBound.Any) if poly else Q
    g = m.define_function("g<lambda>.inner" if flags["odd_name"] else "g", [body_t], [body_t], type_params=params)
    g.set_outputs(*g.inputs())
    # (a declaration may carry the very name of the definition above: symbols must still tell them apart)
    decl = m.declare_function(("g<lambda>.inner" if flags["odd_name"] else "g") if flags["same_names"] else "d", tys.PolyFuncType([], tys.FunctionType([B], [B, B])))
    f = m.define_function("main", [Q, B])
    q, b = f.inputs()
    inst = tys.FunctionType([Q], [Q]) if poly else None
    targs = [tys.TypeTypeArg(Q)] if poly else None
    c1 = f.call(g, q, instantiation=inst, type_args=targs)
    c2 = f.call(g, c1[0], instantiation=inst, type_args=targs) if flags["call_twice"] else c1
    d1 = f.call(decl, b)                                   # second output of the declared function stays unused
    k = f.add_const(val.TRUE)
    l1 = f.load(k)
    l2 = f.load(k) if flags["load_twice"] else l1
    x = f.add_op(programs.cust("x", [B, B], [B, B]), d1[0], l1)   # x[1] unused
    y = f.add_op(programs.cust("y", [B], [B]), l2)
    if flags["order_from_input_first"]:
        f.add_state_order(f.input_node, y)
    if flags["order"]:
        f.add_state_order(x, y)
    if flags["order_to_output"]:
        f.add_state_order(y, f.output_node)
    f.set_outputs(c2[0], x[0], y[0])
    return m.hugr


@lemma("C12", params=lambda: [(i,) for i in range(len(programs.MODULES) + 1)],
       bounds="the 8 builder program templates plus a parametrised module (functions called once or twice, a constant loaded once or twice, "
              "polymorphic or monomorphic callee, two functions of one name, unused outputs, an order edge between siblings, an order edge to the Output node), one task each",
       outside="other programs; the textual / binary form of the model (needs the native hugr._hugr, absent offline)")
def exported_module_is_well_scoped(which):
    flags = {"poly": False, "call_twice": False, "load_twice": False, "order": False, "order_to_output": False, "odd_name": False, "order_from_input_first": False, "same_names": False}
    if which == len(programs.MODULES):
        for k in flags:
            flags[k] = sym.concretize(sym.bool(k))
    h = _program(which, flags)
    sym.predicate("has_function_call", any(isinstance(h[n].op, ops.Call | ops.LoadFunc) for n in h))
    m = h.to_model()
    complaints = _check(h, m)
    sym.note("; ".join(complaints)[:600]) if complaints else None
    kinds = [c.split(":")[0] for c in complaints]
    sym.check("each_node_lists_exactly_its_value_ports", not any("lists" in c or "sources for" in c or "targets for" in c for c in complaints), complaints[:6])
    sym.check("same_link_name_iff_joined_by_an_edge", not any(c.startswith("ports ") for c in complaints))
    sym.check("applied_functions_are_symbols_of_the_module", not any("applies" in c for c in complaints))
    sym.check("order_edges_become_region_hints_with_keys", not any("order hint" in c for c in complaints))
    sym.check("regions_mirror_hierarchy_and_metadata_carried", not any(("children for" in c) or ("regions" in c) or ("metadata" in c) or ("kind" in c) or ("exported as" in c) or ("params" in c) for c in complaints))
    sym.check("no_other_complaint", len(complaints) == len([c for c in complaints if any(w in c for w in ("lists", "sources for", "targets for", "ports ", "applies", "order hint", "children for", "regions", "metadata", "kind", "exported as", "params"))]))


@lemma("C12", bounds="the attribute names read by hugr-model/src/v0/ast/python.rs (extracted from the Rust source text on every run) vs the dataclass "
                     "fields of hugr.model (a finite concrete fact; listed as a side condition, not solver evidence)")
def model_classes_match_rust_binding():
    root = os.environ.get("VERIF_REPO", "/repo")
    p = os.path.join(root, "hugr-model/src/v0/ast/python.rs")
    if not os.path.exists(p):
        p = "/repo/hugr-model/src/v0/ast/python.rs"
    text = open(p).read()
    c = model_check.binding_attribute_complaints(text)
    sym.note("; ".join(c)[:400]) if c else None
    sym.check("model_classes_expose_exactly_the_attributes_read", c == [])


@lemma("C12", params=[(i,) for i in range(37)], bounds="one task per configuration of the first link (absent, or one of 36 endpoint choices); stores of root + 2 nodes with <= 2 (quick) / 3 (thorough) optional links whose endpoints (node, offset 0..1, or the order port) are "
                     "chosen by the solver: fan-out, fan-in (control-flow style), chains through a node are all covered",
       outside="larger link sets", opts={"max_paths": 200000, "timeout_s": 2000})
def link_names_partition_ports_by_connectivity(first):
    from hugr.hugr.node_port import InPort, Node, OutPort
    from hugr.model.export import ModelExport
    from vrf.harness import store
    N = 3
    links = store.sym_links(P(2, 3), N, max_off=1)
    l0 = links[0]
    if first == 0:
        sym.assume(sym.not_(l0.p))
    else:
        c = first - 1
        sym.assume(sym.and_(l0.p, l0.a == 1 + c % 2, l0.o == (c // 2) % 3 - 1, l0.b == 1 + (c // 6) % 2, l0.q == (c // 12) % 3 - 1))
    h, nodes = store.make_store(N, links)
    ex = ModelExport(h)
    # reference partition: connected components of the bipartite port graph
    uf = model_check.UF()
    live = []
    for l in links:
        if sym.concretize(l.p):
            a, o, b, q = sym.concretize(l.a), sym.concretize(l.o), sym.concretize(l.b), sym.concretize(l.q)
            uf.union(("out", a, o), ("in", b, q))
            live.append((a, o, b, q))
    ports = [("out", v, o) for v in (1, 2) for o in (-1, 0, 1)] + [("in", v, o) for v in (1, 2) for o in (-1, 0, 1)]
    name = {}
    for (d, v, o) in ports:
        name[(d, v, o)] = ex.link_name(OutPort(Node(v), o) if d == "out" else InPort(Node(v), o))
    ok = True
    for i, x in enumerate(ports):
        for y in ports[i + 1:]:
            ok = ok and ((name[x] == name[y]) == (uf.find(x) == uf.find(y)))
    sym.check("same_name_iff_connected_by_edges", ok)
    sym.check("names_are_strings", all(isinstance(v, str) for v in name.values()))
