"""C09 — envelope header codec and package round trip."""
from hugr.envelope import (MAGIC_NUMBERS, EnvelopeConfig, EnvelopeFormat, EnvelopeHeader, make_envelope,
                           make_envelope_str, read_envelope, read_envelope_str)

from vrf.lemma import P, lemma
from vrf.symx import sym, symbytes

KNOWN_FORMATS = {1: EnvelopeFormat.MODULE, 2: EnvelopeFormat.MODULE_WITH_EXTS, 63: EnvelopeFormat.JSON}


@lemma("C09", bounds="input length 0..12 bytes, every byte symbolic (0..255): all truncations, all magic values, "
                     "all 2^16 format/flag pairs; exhaustive for the 10-byte header window",
       outside="bytes after the header (payload) are irrelevant to the header decoder")
def header_decoder():
    n = sym.concretize(sym.int("len", 0, 12))
    data = symbytes.make("d", n)
    try:
        h = EnvelopeHeader.from_bytes(data)
        err = None
    except ValueError:
        err = "ValueError"
    # (any other exception type escapes and is reported as no_unexpected_exception:<type>)
    if n < 10:
        sym.check("short_input_rejected", err == "ValueError")
        return
    magic_ok = data[:8] == MAGIC_NUMBERS
    fmt_known = sym.or_(data[8] == 1, data[8] == 2, data[8] == 63)
    sym.check("rejected_iff_bad_magic_or_unknown_format", sym.iff(err == "ValueError", sym.not_(sym.and_(magic_ok, fmt_known))))
    if err is None:
        sym.check("format_is_byte8", h.format.value == data[8])
        bit0 = data[9] % 2 == 1
        sym.check("zstd_is_bit0_of_flags", sym.iff(h.zstd, bit0))
        sym.check("zstd_is_bool", isinstance(h.zstd, bool))
        sym.observe("fmt", h.format.value)


@lemma("C09", unbounded="zstd level: None or any integer; zstd header flag: any bool", bounds="all 3 formats")
def header_encoder():
    fmt = sym.choice("fmt", [EnvelopeFormat.MODULE, EnvelopeFormat.MODULE_WITH_EXTS, EnvelopeFormat.JSON])
    if sym.concretize(sym.bool("via_config")):
        level = sym.int("level") if sym.concretize(sym.bool("compressed")) else None
        hdr = EnvelopeConfig(format=fmt, zstd=level)._make_header()
        want = level is not None
        sym.check("config_zstd_flag_iff_level_given", sym.iff(hdr.zstd, want))
    else:
        want = sym.bool("zstd")
        hdr = EnvelopeHeader(format=fmt, zstd=want)
    b = hdr.to_bytes()
    sym.check("is_bytes_len10", isinstance(b, bytes) and len(b) == 10)
    sym.check("magic", b[:8] == MAGIC_NUMBERS and MAGIC_NUMBERS == b"HUGRiHJv")
    sym.check("format_byte", b[8] == fmt.value)
    flags = b[9]
    sym.check("flag_bit0_is_zstd", sym.iff(flags % 2 == 1, want))
    sym.check("flag_bits76_are_01", (flags // 64) == 1)
    sym.check("flag_bits1to5_zero", (flags // 2) % 32 == 0)
    back = EnvelopeHeader.from_bytes(b)
    sym.check("decode_inverts_encode", sym.and_(back.format is fmt, sym.iff(back.zstd, want)))


@lemma("C09", bounds="all 3 formats")
def text_only_for_ascii_formats():
    fmt = sym.choice("fmt", [EnvelopeFormat.MODULE, EnvelopeFormat.MODULE_WITH_EXTS, EnvelopeFormat.JSON])
    from hugr.package import Package
    pkg = Package([], [])
    level = sym.int("level", 0, 3) if sym.concretize(sym.bool("compressed")) else None
    try:
        s = make_envelope_str(pkg, EnvelopeConfig(format=fmt, zstd=level))
        raised = False
    except ValueError:
        raised = True
    except UnicodeDecodeError:
        # a compressed payload is not valid UTF-8: also a (subclass of) ValueError; tolerated by the statement
        raised = True
    sym.check("text_offered_only_for_ascii_printable", sym.implies(not raised, fmt is EnvelopeFormat.JSON))
    sym.check("non_ascii_format_rejected", sym.implies(fmt is not EnvelopeFormat.JSON, raised))
    if not raised:
        sym.check("text_header", s[:8] == "HUGRiHJv" and s[8] == "?")


@lemma("C09", bounds="packages of 0..2 modules drawn from 8 builder templates (calls, nested regions, CFG, constants, tracked circuit, non-ASCII "
                     "names/metadata) and 0..2 extensions (distinct names or one name twice); compression None or a symbolic level in {-5,0,1,3,22} (quick) / -5..22 (thorough), realised at the zstd boundary; second module fixed in quick; "
                     "bytes and text encodings", outside="MODULE / MODULE_WITH_EXTS payloads (need the native hugr._hugr, absent offline)",
       opts={"max_paths": 100000, "timeout_s": 1500})
def package_roundtrip():
    import json
    from hugr.package import Package
    from vrf.harness import programs
    nm = sym.concretize(sym.int("modules", 0, 2))
    mods = [programs.MODULES[sym.concretize(sym.int(f"m{j}", 0, len(programs.MODULES) - 1)) if (j == 0 or P(False, True)) else 6]().hugr
            for j in range(nm)]
    ne = sym.concretize(sym.int("extensions", 0, 2))
    # (the second extension may carry the SAME name as the first - the same id listed twice with different contents)
    same_name = ne == 2 and sym.concretize(sym.bool("extensions_share_a_name"))
    exts = [programs.extension_small("ext0.ünï" if same_name else f"ext{j}.ünï", with_binary=(j == 1)) for j in range(ne)]
    pkg = Package(mods, exts)
    if sym.concretize(sym.bool("compressed")):
        level = sym.int("level", -5, 22)
        if P(True, False):
            sym.assume(sym.or_(level == -5, level == 0, level == 1, level == 3, level == 22))
    else:
        level = None
    cfg = EnvelopeConfig(format=EnvelopeFormat.JSON, zstd=level)
    text = level is None and sym.concretize(sym.bool("as_text"))
    if text:
        s = pkg.to_str(cfg)
        sym.check("text_is_ascii_header_plus_json", s.startswith("HUGRiHJv?@"))
        back = Package.from_str(s)
    else:
        data = pkg.to_bytes(cfg)
        sym.check("header_bytes", data[:8] == MAGIC_NUMBERS and data[8] == 63 and data[9] == (0x41 if level is not None else 0x40))
        back = Package.from_bytes(data)
    sym.check("same_number_of_modules_and_extensions", len(back.modules) == nm and len(back.extensions) == ne)
    ok = True
    for a, b in zip(pkg.modules, back.modules):
        ok = ok and json.loads(a.to_json()) == json.loads(b.to_json())
    sym.check("modules_reserialize_identically_in_order", ok)
    ok = True
    for a, b in zip(pkg.extensions, back.extensions):
        ok = ok and json.loads(a.to_json()) == json.loads(b.to_json()) and a.name == b.name
    sym.check("extensions_reserialize_identically_in_order", ok)
    if level is None and not text:
        sym.check("default_config_equals_uncompressed_json", pkg.to_bytes() == data)
