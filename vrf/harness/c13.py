"""C13 — builders refuse inconsistent constructions instead of recording them."""
from hugr import ops, tys, val
from hugr.build.cfg import Cfg
from hugr.build.cond_loop import Conditional, ConditionalError
from hugr.build.dfg import Dfg, Function
from hugr.build.function import Module
from hugr.build.tracked_dfg import TrackedDfg
from hugr.exceptions import MismatchedExit, NoSiblingAncestor, NotInSameCfg
from hugr.hugr.node_port import Node

from vrf.lemma import P, lemma
from vrf.symx import sym

ATOMS = [tys.Bool, tys.Qubit, tys.Unit, tys.USize()]


def _row(tag, maxlen=2):
    n = sym.concretize(sym.int(f"len.{tag}", 0, maxlen))
    return [ATOMS[sym.concretize(sym.int(f"{tag}{i}", 0, len(ATOMS) - 1))] for i in range(n)]


def _raises(fn, *excs):
    try:
        fn()
    except excs:
        return True
    return False


@lemma("C13", unbounded="case index: any integer", bounds="conditionals with 1..3 variants (quick) / 1..4 (thorough); every subset of cases already built")
def add_case_index_and_rebuild():
    nv = sym.concretize(sym.int("variants", 1, P(3, 4)))
    cond = Conditional(tys.Sum([[] for _ in range(nv)]), [tys.Bool])
    built = []
    for j in range(nv):
        if sym.concretize(sym.bool(f"built{j}")):
            with cond.add_case(j) as c:
                c.set_outputs(*c.inputs())
            built.append(j)
    cid = sym.int("case_id")
    sym.predicate("negative_case_index", cid < 0)
    n_before = len(cond.hugr)
    try:
        case = cond.add_case(cid)
        raised = False
    except ConditionalError:
        raised = True
    in_range = sym.and_(cid >= 0, cid < nv)
    already = sym.or_(*[cid == j for j in built]) if built else False
    sym.check("add_case_refuses_out_of_range_or_rebuilt", sym.iff(raised, sym.or_(sym.not_(in_range), already)))
    if not raised:
        sym.check("accepted_case_is_the_indexed_child", cond.hugr.children(cond)[sym.concretize(cid)] == case.parent_node)
    sym.check("no_node_added", len(cond.hugr) == n_before)


@lemma("C13", bounds="conditionals with 1..3 variants; every subset of built cases")
def conditional_exit_requires_all_cases():
    nv = sym.concretize(sym.int("variants", 1, 3))
    cond = Conditional(tys.Sum([[] for _ in range(nv)]), [tys.Bool])
    nb = 0
    for j in range(nv):
        if sym.concretize(sym.bool(f"built{j}")):
            with cond.add_case(j) as c:
                c.set_outputs(*c.inputs())
            nb += 1
    raised = _raises(lambda: cond.__exit__(None, None, None), ConditionalError)
    sym.check("exit_refuses_unbuilt_cases", raised == (nb < nv))
    d = Dfg(tys.Bool, tys.Bool)
    raised2 = False
    try:
        with d.add_conditional(*d.inputs()) as c2:
            if nb == nv:
                for j in range(2):
                    with c2.add_case(j) as cs:
                        cs.set_outputs(*cs.inputs())
    except ConditionalError:
        raised2 = True
    sym.check("with_block_refuses_unbuilt_cases", raised2 == (nb < nv))


@lemma("C13", bounds="two cases whose output rows are 0..2 types from 4 atoms, chosen independently")
def conditional_cases_must_agree():
    ra, rb = _row("a"), _row("b")
    cond = Conditional(tys.Bool, [*ra, *rb])
    with cond.add_case(0) as c0:
        c0.set_outputs(*c0.inputs()[: len(ra)])
    c1 = cond.add_case(1)
    raised = _raises(lambda: c1.set_outputs(*c1.inputs()[len(ra):]), ConditionalError)
    sym.check("mismatched_case_outputs_refused", raised == (ra != rb))
    sym.check("conditional_outputs_are_first_case", cond.parent_op.outputs == ra)


@lemma("C13", bounds="two exiting blocks whose output rows are 0..2 types from 4 atoms, chosen independently")
def cfg_exit_types_must_agree():
    ra, rb = _row("a"), _row("b")
    cfg = Cfg(*ra, *rb)
    with cfg.add_entry() as e:
        e.set_outputs(e.load(val.TRUE), *e.inputs())
    with cfg.add_successor(e[0]) as b1:
        b1.set_single_succ_outputs(*b1.inputs()[: len(ra)])
    with cfg.add_successor(e[1]) as b2:
        b2.set_single_succ_outputs(*b2.inputs()[len(ra):])
    cfg.branch_exit(b1[0])
    via_branch = sym.concretize(sym.bool("via_branch"))
    if via_branch:
        raised = _raises(lambda: cfg.branch(b2[0], cfg.exit), MismatchedExit)
    else:
        raised = _raises(lambda: cfg.branch_exit(b2[0]), MismatchedExit)
    sym.check("mismatched_exit_refused", raised == (ra != rb))
    sym.check("cfg_outputs_are_first_exit", cfg.parent_op.outputs == ra)


@lemma("C13", bounds="declared and actual output rows 0..2 types from 4 atoms, independent")
def function_outputs_must_match_declaration():
    ra, rb = _row("a"), _row("b")
    m = Module()
    f = m.define_function("f", [*ra, *rb], ra)
    sel = sym.concretize(sym.bool("give_declared"))
    outs = f.inputs()[: len(ra)] if sel else f.inputs()[len(ra):]
    actual = ra if sel else rb
    raised = _raises(lambda: f.set_outputs(*outs), ValueError)
    sym.check("undeclared_outputs_refused", raised == (actual != ra))
    f2 = Function("g", [*ra, *rb])
    f2.declare_outputs(rb)
    raised2 = _raises(lambda: f2.set_outputs(*f2.inputs()[: len(ra)]), ValueError)
    sym.check("standalone_function_outputs_refused", raised2 == (ra != rb))


@lemma("C13", bounds="0..2 type parameters; type_args None or a list of 0..3; instantiation given or not; Call and LoadFunc, direct and through the builder")
def polymorphic_call_needs_instantiation():
    np_ = sym.concretize(sym.int("params", 0, 2))
    params = [tys.TypeTypeParam(tys.TypeBound.Any) for _ in range(np_)]
    body = tys.FunctionType([tys.Variable(0, tys.TypeBound.Any)] if np_ else [tys.Bool], [])
    sig = tys.PolyFuncType(params, body)
    inst = tys.FunctionType([tys.Qubit], []) if sym.concretize(sym.bool("inst_given")) else None
    if sym.concretize(sym.bool("targs_given")):
        nt = sym.concretize(sym.int("ntargs", 0, 3))
        targs = [tys.TypeTypeArg(tys.Qubit) for _ in range(nt)]
    else:
        nt, targs = 0, None
    want = np_ > 0 and (inst is None or nt != np_)
    how = sym.concretize(sym.int("how", 0, 3))
    if how == 0:
        raised = _raises(lambda: ops.Call(sig, inst, targs), ops.NoConcreteFunc)
    elif how == 1:
        raised = _raises(lambda: ops.LoadFunc(sig, inst, targs), ops.NoConcreteFunc)
    else:
        m = Module()
        decl = m.declare_function("poly", sig)
        f = m.define_function("main", [tys.Qubit] if np_ else [tys.Bool], [])
        n0 = len(m.hugr)
        if how == 2:
            raised = _raises(lambda: f.call(decl, *f.inputs(), instantiation=inst, type_args=targs), ops.NoConcreteFunc)
        else:
            raised = _raises(lambda: f.load_function(decl, instantiation=inst, type_args=targs), ops.NoConcreteFunc)
        if raised:
            sym.check("refused_call_adds_no_node", len(m.hugr) == n0)
    sym.check("polymorphic_without_matching_instantiation_refused", raised == want)


def _non_function_node(d, kind):
    if kind == 0:
        return d.add_const(val.TRUE)
    if kind == 1:
        return d.input_node
    if kind == 2:
        return d.add_op(ops.Noop(), d.inputs()[0])
    if kind == 3:
        return d.load(val.TRUE)
    return d.add_op(ops.Custom("x", tys.FunctionType([], [tys.FunctionType([], [])]), extension="e"))


@lemma("C13", bounds="5 kinds of non-function nodes; call and load_function")
def non_function_port_refused():
    d = Dfg(tys.Bool)
    n = _non_function_node(d, sym.concretize(sym.int("kind", 0, 4)))
    before = len(d.hugr)
    if sym.concretize(sym.bool("call")):
        raised = _raises(lambda: d.call(n), Exception)
    else:
        raised = _raises(lambda: d.load_function(n), Exception)
    sym.check("non_function_used_as_function_refused", raised)
    sym.check("refused_adds_no_node", len(d.hugr) == before)


@lemma("C13", bounds="wires from a Const node, a FuncDefn node, a FuncDecl node, the state-order port of the Input node / of an operation with two outputs, used as dataflow values in add_op / set_outputs / add_nested")
def non_dataflow_port_refused():
    m = Module()
    decl = m.declare_function("ext", tys.PolyFuncType([], tys.FunctionType([], [])))
    f = m.define_function("main", [tys.Bool])
    c = f.add_const(val.TRUE)
    g = m.define_function("g", [])
    two = f.add_op(ops.Custom("two", tys.FunctionType([], [tys.Bool, tys.Bool]), extension="e"))
    # (also the state-order port of a dataflow node: not a value port, although the node has value outputs)
    src = [c, decl, g.parent_node, f.input_node.out(-1), two.out(-1)][sym.concretize(sym.int("src", 0, 4))]
    how = sym.concretize(sym.int("how", 0, 2))
    if how == 0:
        raised = _raises(lambda: f.add_op(ops.Noop(), src), ValueError, NoSiblingAncestor)
    elif how == 1:
        raised = _raises(lambda: f.set_outputs(src), ValueError, NoSiblingAncestor)
    else:
        raised = _raises(lambda: f.add_nested(src), ValueError, NoSiblingAncestor)
    sym.check("non_dataflow_port_used_as_value_refused", raised)


@lemma("C13", bounds="commands with 1..3 arguments, an integer at a symbolic position, arbitrary integer value",
       unbounded="the integer used as wire index")
def untracked_builder_refuses_integer_wires():
    n = sym.concretize(sym.int("nargs", 1, 3))
    d = Dfg(*[tys.Bool] * n)
    pos = sym.concretize(sym.int("pos", 0, n - 1))
    k = sym.int("index")
    args = [k if i == pos else w for i, w in enumerate(d.inputs())]
    op = ops.Custom("o", tys.FunctionType([tys.Bool] * n, []), extension="e")
    before = len(d.hugr)
    how = sym.concretize(sym.bool("extend"))
    if how:
        raised = _raises(lambda: d.extend(op(*args)), ValueError)
    else:
        raised = _raises(lambda: d.add(op(*args)), ValueError)
    sym.check("integer_wire_in_untracked_builder_refused", raised)
    sym.check("refused_command_adds_no_node", len(d.hugr) == before)


@lemma("C13", unbounded="the index: any non-negative integer", bounds="tracked lists of length 0..3 with every pattern of untracked holes",
       outside="negative indices (Python list convention makes tracked[-1] a tracked wire; neither demanded to fail nor to succeed)")
def untracked_index_refused():
    n = sym.concretize(sym.int("n", 0, 3))
    d = TrackedDfg(*[tys.Bool] * n, track_inputs=True)
    holes = []
    for j in range(n):
        if sym.concretize(sym.bool(f"hole{j}")):
            d.untrack_wire(j)
            holes.append(j)
    i = sym.int("i", 0, None)
    is_hole = sym.or_(*[i == j for j in holes]) if holes else False
    want = sym.or_(i >= n, is_hole)
    how = sym.concretize(sym.int("how", 0, 3))
    if how == 0:
        raised = _raises(lambda: d.tracked_wire(i), IndexError)
    elif how == 1:
        raised = _raises(lambda: d.add(ops.Noop()(i)), IndexError)
    elif how == 2:
        raised = _raises(lambda: d.untrack_wire(i), IndexError)
    else:
        raised = _raises(lambda: d.set_indexed_outputs(i), IndexError)
    sym.check("untracked_index_refused", sym.iff(raised, want))


def _partial_ops():
    B = [tys.Bool]
    return [
        ops.Output(), ops.MakeTuple(), ops.UnpackTuple(), ops.DFG(B), ops.CFG(B), ops.DataflowBlock(B), ops.ExitBlock(),
        ops.LoadConst(), ops.Conditional(tys.Bool, B), ops.Case(B), ops.TailLoop(B, B), ops.FuncDefn("f", B),
        ops.CallIndirect(), ops.Noop(),
    ]


@lemma("C13", bounds="all 14 partially specifiable operation classes; whole-HUGR serialisation with the incomplete op at the root or as a child")
def incomplete_op_not_serialised():
    k = sym.concretize(sym.int("op", 0, 13))
    op = _partial_ops()[k]
    raised = _raises(lambda: op._to_serial(Node(0)), ops.IncompleteOp)
    sym.check("incomplete_op_serialisation_refused", raised)
    from hugr.hugr import Hugr
    if sym.concretize(sym.bool("as_root")):
        h = Hugr(op)
    else:
        h = Hugr()
        h.add_node(op)
    sym.check("incomplete_hugr_to_json_refused", _raises(lambda: h.to_json(), ops.IncompleteOp))
    if k == 5:
        blk = ops.DataflowBlock([tys.Bool], _sum=tys.Bool)  # one of two fields set
        sym.check("partially_set_block_refused", _raises(lambda: blk._to_serial(Node(0)), ops.IncompleteOp))


# ---------------------------------------------------------------------------
# structural refusals: NoSiblingAncestor / NotInSameCfg (shared with C01: order edges)
# ---------------------------------------------------------------------------
def _ancestors(h, n):
    out = []
    p = h[n].parent
    while p is not None:
        out.append(p)
        p = h[p].parent
    return out


def _hierarchy():
    """Dfg root with nested regions three levels deep and a sibling region."""
    d0 = Dfg(tys.Bool, tys.Bool)
    a0 = d0.add_op(ops.Custom("a0", tys.FunctionType([tys.Bool], [tys.Bool]), extension="e"), d0.inputs()[0])
    d1 = d0.add_nested(d0.inputs()[1])
    a1 = d1.add_op(ops.Custom("a1", tys.FunctionType([tys.Bool], [tys.Bool]), extension="e"), d1.inputs()[0])
    d2 = d1.add_nested(a1[0])
    a2 = d2.add_op(ops.Custom("a2", tys.FunctionType([tys.Bool], [tys.Bool]), extension="e"), d2.inputs()[0])
    d1b = d0.add_nested(a0[0])
    a1b = d1b.add_op(ops.Custom("a1b", tys.FunctionType([tys.Bool], [tys.Bool]), extension="e"), d1b.inputs()[0])
    return d0, [d0, d1, d2, d1b]


@lemma("C13", bounds="a 4-region hierarchy (depth 3 plus a sibling region, 15 nodes); wire source = output 0 of ANY node of the hierarchy "
                     "(root, Input/Output nodes, operations, region parents), target = a new operation in ANY region",
       outside="deeper hierarchies")
def wire_needs_sibling_ancestor():
    d0, builders = _hierarchy()
    h = d0.hugr
    n_nodes = len(h)
    s = sym.int("src", 0, n_nodes - 1)
    src = Node(sym.concretize(s))
    bld = builders[sym.concretize(sym.int("region", 0, len(builders) - 1))]
    region = bld.parent_node
    src_parent = h[src].parent
    related = src_parent is not None and (src_parent == region or src_parent in _ancestors(h, region))
    op = ops.Custom("new", tys.FunctionType([tys.Bool], []), extension="e")
    try:
        new = bld.add_op(op, src.out(0))
        outcome = "ok"
    except NoSiblingAncestor:
        outcome = "NoSiblingAncestor"
    except Exception:  # noqa: BLE001
        outcome = "OtherError"  # related, but not a (complete) dataflow value port: ValueError / IncompleteOp / InvalidPort
    sym.check("unrelated_source_refused_with_NoSiblingAncestor", (outcome == "NoSiblingAncestor") == (not related))
    if outcome == "ok":
        sym.check("link_recorded", h.has_link(src.out(0), new.inp(0)))
        # the order edge goes to the ancestor of the new node that is a sibling of the source
        if src_parent == region:
            sym.check("local_wire_has_no_order_edge", list(h.outgoing_order_links(src)) == [])
        else:
            anc = [x for x in [region] + _ancestors(h, region) if h[x].parent == src_parent]
            sym.check("nonlocal_wire_gets_order_edge_to_sibling_ancestor", list(h.outgoing_order_links(src)) == anc[:1])


def _cfg_hierarchy():
    d0 = Dfg(tys.Bool, tys.Bool)
    v0 = d0.add_op(ops.Custom("v0", tys.FunctionType([tys.Bool], [tys.Bool]), extension="e"), d0.inputs()[0])
    c = d0.add_cfg(d0.inputs()[0])
    e = c.add_entry()
    ve = e.add_op(ops.Custom("ve", tys.FunctionType([tys.Bool], [tys.Bool]), extension="e"), e.inputs()[0])
    de = e.add_nested(ve[0])                      # a region nested inside the entry block
    vde = de.add_op(ops.Custom("vde", tys.FunctionType([tys.Bool], [tys.Bool]), extension="e"), de.inputs()[0])
    de.set_outputs(vde[0])
    e.set_single_succ_outputs(ve[0])
    # a CFG nested inside the entry block, with a value directly inside ITS entry block
    ci = e.add_cfg(ve[0])
    ei = ci.add_entry()
    vei = ei.add_op(ops.Custom("vei", tys.FunctionType([tys.Bool], [tys.Bool]), extension="e"), ei.inputs()[0])
    b = c.add_successor(e[0])
    c2 = d0.add_cfg(d0.inputs()[1])
    e2 = c2.add_entry()
    ve2 = e2.add_op(ops.Custom("ve2", tys.FunctionType([tys.Bool], [tys.Bool]), extension="e"), e2.inputs()[0])
    return d0, c, e, b, c2, {"v0": v0, "ve": ve, "vde": vde, "ve2": ve2, "vei": vei, "in_d0": d0.input_node, "in_e": e.input_node, "in_b": b.input_node,
                             "entry": e.parent_node, "cfg": c.parent_node, "cfg2": c2.parent_node, "root": d0.parent_node}


@lemma("C13", bounds="two CFGs inside a Dfg; wire into a new operation of a non-entry block from: its own block, the enclosing Dfg (Ext), the "
                     "entry block (Dom), a region nested in the entry block, a block of a CFG nested in the entry block, the other CFG, block / CFG / root nodes themselves",
       outside="dominance between non-entry blocks (not decidable by the builder at wiring time; premise of C01)")
def block_wire_must_come_from_same_cfg():
    d0, c, e, b, c2, srcs = _cfg_hierarchy()
    h = d0.hugr
    names = sorted(srcs)
    name = names[sym.concretize(sym.int("src", 0, len(names) - 1))]
    src = srcs[name]
    op = ops.Custom("new", tys.FunctionType([tys.Bool], []), extension="e")
    try:
        new = b.add_op(op, src.out(0))
        outcome = "ok"
    except NotInSameCfg:
        outcome = "NotInSameCfg"
    except NoSiblingAncestor:
        outcome = "NoSiblingAncestor"
    except Exception:  # noqa: BLE001
        outcome = "OtherError"
    # reference rule (validate.rs): Ext edge = source's parent is an ancestor region of the target;
    # Dom edge = source's parent is a block of the same CFG as the target's block
    ext_ok = name in ("v0", "in_d0", "in_b", "cfg", "cfg2", "entry")  # parent is b, c or d0
    dom_ok = name in ("ve", "in_e")                                     # parent is the entry block
    outside = name in ("ve2", "root")
    nested_in_block = name in ("vde", "vei")     # inside a region / an inner CFG of another block: not visible from block b
    if outside:
        sym.check("source_outside_cfg_refused", outcome in ("NotInSameCfg", "NoSiblingAncestor"))
    elif nested_in_block:
        sym.check("source_hidden_inside_region_of_other_block_refused", outcome != "ok")
    else:
        sym.check("visible_source_accepted_or_non_value_port_refused", outcome in ("ok", "OtherError"))
    if outcome == "ok":
        sym.check("link_recorded", h.has_link(src.out(0), new.inp(0)))
        if dom_ok:
            sym.check("dom_edge_has_no_order_edge", list(h.outgoing_order_links(src)) == [])
        if name in ("v0", "in_d0"):
            sym.check("ext_edge_into_block_gets_order_edge_to_cfg", list(h.outgoing_order_links(src)) == [c.parent_node])
