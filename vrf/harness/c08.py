"""C08 — inserting a HUGR embeds it isomorphically and disturbs nothing else."""
from hugr import ops, tys
from hugr.build.cfg import Cfg
from hugr.build.cond_loop import Conditional, TailLoop
from hugr.build.dfg import Dfg
from hugr.exceptions import ParentBeforeChild
from hugr.hugr import Hugr
from hugr.hugr.node_port import InPort, Node, OutPort

from vrf.harness import store
from vrf.harness.c02 import ARITY, deletion_masks, holey_hugr, live_links
from vrf.harness.common import port_lists, same_structure, structure
from vrf.lemma import P, lemma
from vrf.symx import sym

B = tys.Bool


@lemma("C08", params=lambda: [(m,) for m in deletion_masks(4)],
       unbounded="port offsets of B's value links",
       bounds="B: 4 nodes in a 3-level hierarchy with any deletable set removed (holes) and optional index reuse, metadata on odd nodes or none, "
              "no link, or one symbolic link plus an optional duplicate of it: value links with symbolic offsets, order links, multi-links (quick: queried at that link's ports; thorough: at any port of any node); A: root + 2 nodes with one link and optionally two freed indices; "
              "insertion parent symbolic among 2 (quick) / 3 (thorough) of A's nodes or omitted; one task per deletion set",
       outside="larger B / A", opts={"max_paths": 400000, "timeout_s": 3000})
def insert_hugr_is_isomorphic_embedding(dels):
    b, live = holey_hugr(4, tag="b.", dels=dels)
    if not sym.concretize(sym.bool("B_has_links")):
        blinks = []  # B without any link: counts come from the creation-time requests alone
    elif True:
        blinks = live_links(1, live, tag="bl", max_off=None)
        if blinks:  # a second link duplicating the first (multi-link on both ports), optional
            l0 = blinks[0]
            blinks.append(store.Link(sym.bool("bl.dup"), l0.a, l0.o, l0.b, l0.q))
    else:
        blinks = live_links(3, live, tag="bl", max_off=None)
    store.attach_links(b, blinks, {i: ARITY[9 if i == getattr(b, "_arity_of_reused", None) else i][1] for i in live if i != 0})
    alinks = [store.Link(True, 1, 0, 2, 1)]
    a, anodes = store.make_store(3, alinks)
    if sym.concretize(sym.bool("A_has_freed_index")):
        # A deleted a node earlier: the first inserted node reuses its index (and must not inherit anything from it)
        # (two freed indices, so that B's root and its first child both land on a reused index)
        k = sym.concretize(sym.int("freed.count", 0, 2))
        gone = [a.add_node(store.node_op(7), num_outs=k, metadata={"stale": True}) for _ in range(2)]
        # ... and the deleted nodes had order links and a value link of their own
        a.add_order_link(anodes[1], gone[0])
        a.add_order_link(gone[1], anodes[2])
        a.add_link(gone[0].out(0), gone[1].inp(0))
        for g in gone:
            a.delete_node(g)
    pi = sym.concretize(sym.int("parent", -1, P(1, 2)))   # -1: no parent given (the documented default: A's root)
    par = anodes[max(pi, 0)]
    a_before = [(n.idx, a[n].op, a[n].parent, [c.idx for c in a.children(n)]) for n in a]
    b_nodes_before = [(n.idx, b[n].op, b[n].parent, [c.idx for c in b.children(n)], dict(b[n].metadata)) for n in b]
    mapping = a.insert_hugr(b, par) if pi >= 0 else a.insert_hugr(b)
    sym.check("mapping_domain_is_B_nodes", sorted(k.idx for k in mapping) == live)
    new = [v.idx for v in mapping.values()]
    sym.check("mapping_injective_onto_fresh_nodes", len(set(new)) == len(new) and all(i >= 3 for i in new))  # (3, 4 may be reused freed indices)
    okh = True
    for k, v in mapping.items():   # a handle of the mapping knows the count of its node or none at all (the count may be symbolic: no iteration here)
        okh = sym.and_(okh, sym.or_(v._num_out_ports is None, v._num_out_ports == b.num_out_ports(k)))
    sym.check("handles_in_mapping_carry_the_count", okh)
    mu = {k.idx: v for k, v in mapping.items()}
    ok = True
    for i in live:
        d, d2 = b[Node(i)], a[mu[i]]
        ok = ok and d2.op is d.op
        if d.parent is None:
            ok = ok and d2.parent == par
        else:
            ok = ok and d2.parent == mu[d.parent.idx]
        ok = ok and [c.idx for c in a.children(mu[i])] == [mu[c.idx].idx for c in b.children(Node(i))]
        ok = ok and dict(d2.metadata) == dict(d.metadata)
    sym.check("ops_hierarchy_child_order_metadata_preserved", ok)
    okc = True
    for i in live:
        okc = sym.and_(okc, a.num_out_ports(mu[i]) == b.num_out_ports(Node(i)))
    sym.check("output_port_counts_preserved", okc)
    sym.check("root_hangs_under_requested_parent_as_last_child", a.children(par)[-1] == mu[0])
    # links: ordered per-port lists of the image, both ends (quick: at the ports of B's first link; thorough: at any port)
    cands = [i for i in live if i != 0]
    if cands:
        if blinks:
            sv, so, tv, to = blinks[0].a, blinks[0].o, blinks[0].b, blinks[0].q
        else:
            sv = tv = cands[sym.concretize(sym.int("qv", 0, len(cands) - 1))]
            so = to = sym.int("qo", -1, None)
        got = list(a.linked_ports(OutPort(mu[sv], so)))
        want = [(mu[sym.concretize(t)].idx, q) for (t, q) in store.targets(blinks, sv, so)]
        sym.check("links_of_image_from_source_end", store.same_ports(got, want))
        got = list(a.linked_ports(InPort(mu[tv], to)))
        want = [(mu[sym.concretize(t)].idx, q) for (t, q) in store.sources(blinks, tv, to)]
        sym.check("links_of_image_from_target_end", store.same_ports(got, want))
    # the images that may sit on reused indices carry exactly B's order links (nothing left over from a deleted node)
    oko = True
    for i in live[:2]:
        oko = sym.and_(oko, store.same_ports(list(a.linked_ports(OutPort(mu[i], -1))), [(mu[sym.concretize(t)].idx, q) for (t, q) in store.targets(blinks, i, -1)]),
                       store.same_ports(list(a.linked_ports(InPort(mu[i], -1))), [(mu[sym.concretize(t)].idx, q) for (t, q) in store.sources(blinks, i, -1)]))
    sym.check("order_links_of_image_are_exactly_Bs", oko)
    # A's prior nodes and links unchanged
    oka = True
    for (idx, op, parent, kids) in a_before:
        n = Node(idx)
        exp_kids = kids + ([mu[0].idx] if idx == par.idx else [])
        oka = oka and a[n].op is op and a[n].parent == parent and [c.idx for c in a.children(n)] == exp_kids
    sym.check("prior_nodes_of_A_unchanged", oka)
    if True:
        sym.check("prior_links_of_A_unchanged", list(a.linked_ports(OutPort(Node(1), 0))) == [InPort(Node(2), 1)]
                  and list(a.linked_ports(InPort(Node(2), 1))) == [OutPort(Node(1), 0)] and list(a.linked_ports(InPort(Node(1), 0))) == [])
    else:
        x, xo = sym.int("ax", 1, 2), sym.int("axo", -1, None)
        sym.check("prior_links_of_A_unchanged", sym.and_(
            store.same_ports(list(a.linked_ports(OutPort(Node(x), xo))), store.targets(alinks, x, xo)),
            store.same_ports(list(a.linked_ports(InPort(Node(x), xo))), store.sources(alinks, x, xo))))
    # B itself is not modified
    sym.check("B_nodes_unchanged", [(n.idx, b[n].op, b[n].parent, [c.idx for c in b.children(n)], dict(b[n].metadata)) for n in b] == b_nodes_before)
    if cands:
        sym.check("B_links_unchanged", sym.and_(
            store.same_ports(list(b.linked_ports(OutPort(Node(sv), so))), store.targets(blinks, sv, so)),
            store.same_ports(list(b.linked_ports(InPort(Node(tv), to))), store.sources(blinks, tv, to))))


def _inner(kind, n_in):
    """A builder-made HUGR to insert, with n_in value inputs."""
    if kind == 0:
        d = Dfg(*[B] * n_in)
        ws = d.inputs()
        n = d.add_op(ops.Custom("inner", tys.FunctionType([B] * n_in, [B, B]), extension="e"), *ws, metadata={"m": 1})
        d.add_state_order(d.input_node, n)
        d.set_outputs(n[0], n[0])  # multi-link out of one port
        return d, 2
    if kind == 1:
        c = Cfg(*[B] * n_in)
        with c.add_entry() as e:
            e.set_single_succ_outputs(*e.inputs())
        c.branch_exit(e[0])
        return c, n_in
    if kind == 2:
        assert n_in >= 1
        c = Conditional(tys.Bool, [B] * (n_in - 1))
        for j in range(2):
            with c.add_case(j) as cs:
                cs.set_outputs(*cs.inputs())
        return c, n_in - 1
    t = TailLoop([B] * n_in, [])
    with t:
        from hugr import val
        brk = t.add_op(ops.Tag(1, tys.Sum([[B] * n_in, []])))
        t.set_loop_outputs(brk)
    return t, 0


@lemma("C08", bounds="the four insert_* wrappers; inner graphs with 0..2 value inputs, wires taken from a parent Dfg's inputs or from an "
                     "enclosing region (non-local wire -> order edge)", outside="larger inner graphs")
def insert_wrappers_attach_wires():
    kind = sym.concretize(sym.int("kind", 0, 3))
    n_in = sym.concretize(sym.int("n_in", 1 if kind == 2 else 0, 2))
    inner, n_out = _inner(kind, n_in)
    snapshot = structure(inner.hugr)
    outer = Dfg(*[B] * 2)
    nonlocal_wires = sym.concretize(sym.bool("from_enclosing_region"))
    host = outer.add_nested() if nonlocal_wires else outer
    wires = [outer.inputs()[(j + 1) % 2] for j in range(n_in)]  # distinct wires, not in input order
    before = len(outer.hugr)
    if kind == 0:
        node = host.insert_nested(inner, *wires)
    elif kind == 1:
        node = host.insert_cfg(inner, *wires)
    elif kind == 2:
        node = host.insert_conditional(inner, *wires)
    else:
        split = sym.concretize(sym.int("n_just_inputs", 0, n_in))
        node = host.insert_tail_loop(inner, wires[:split], wires[split:])
    h = outer.hugr
    sym.check("inserted_node_count", len(h) == before + len(inner.hugr))
    sym.check("handle_is_image_of_root", h[node].op is inner.hugr[inner.hugr.root].op and h[node].parent == host.parent_node)
    ok = True
    for j, w in enumerate(wires):
        ok = ok and list(h.linked_ports(node.inp(j))) == [w.out_port()]
    sym.check("wires_attached_at_inputs_in_order", ok)
    want_order = [host.parent_node] if (nonlocal_wires and n_in > 0) else []
    sym.check("nonlocal_wires_get_order_edge_to_sibling_ancestor", list(h.outgoing_order_links(outer.input_node)) == want_order)
    sym.check("handle_enumerates_outputs", [p.offset for p in node] == list(range(n_out)) and h.num_out_ports(node) >= n_out)
    sym.check("B_not_modified", structure(inner.hugr) == snapshot)
    # the inserted subgraph is a copy of B: same ops in the same child order below the handle
    def shape(hg, n):
        return (hg[n].op, [shape(hg, c) for c in hg.children(n)])
    sym.check("subgraph_is_copy_of_B", shape(h, node) == shape(inner.hugr, inner.hugr.root))


@lemma("C08", bounds="B = two-node HUGR whose child has a lower index than its parent is impossible through the API; instead: "
                     "insertion of a HUGR whose node list puts a child before its parent (index reuse) must raise ParentBeforeChild or embed correctly")
def parent_before_child():
    b = Hugr(ops.DFG([], []))
    x = b.add_node(ops.Custom("x", tys.FunctionType.empty(), extension="e"))
    y = b.add_node(ops.DFG([], []))
    b.delete_node(x)
    z = b.add_node(ops.Custom("z", tys.FunctionType.empty(), extension="e"), y)  # reuses index 1 < index of its parent 2
    a = Hugr()
    try:
        m = a.insert_hugr(b)
        ok = a[m[z]].parent == m[y] and a[m[y]].parent == m[b.root] and a[m[b.root]].parent == a.root and len(a) == 4
        sym.check("child_listed_before_parent_is_refused_or_embedded_correctly", ok)
    except ParentBeforeChild:
        # refusal is acceptable (the statement does not promise atomicity); A's own nodes must be intact
        sym.check("child_listed_before_parent_is_refused_or_embedded_correctly", a.root.idx == 0 and a[a.root].parent is None)
