"""C17 — the published JSON schema and the Python codec accept the same documents.

Not symbolic execution: an SMT equivalence of two schema documents regenerated on every run
(A = the published file, B = what pydantic generates from the current serialization models under
the same config).  One custom lemma per published file.
"""
import json
import os
import subprocess
import sys
import time

from vrf.lemma import CustomResult, lemma
from vrf.oracle import schema_smt

FILES = [("hugr_schema_strict", "hugr", "strict"), ("hugr_schema", "hugr", "lax"),
         ("testing_hugr_schema_strict", "testing", "strict"), ("testing_hugr_schema", "testing", "lax")]


def _root():
    return os.environ.get("VERIF_REPO", "/repo")


_GEN_CACHE = {}


def regenerate(which, mode):
    """Run the repository's own scripts/generate_schema.py (all four documents, in the script's order, in ONE
    process: the rebuilds mutate shared model configuration, and the published files come out of exactly this
    sequence) into a scratch directory and return the document for (which, mode) plus the version strings."""
    import shutil
    import tempfile
    root = _root()
    if root not in _GEN_CACHE:
        env = dict(os.environ)
        here = os.path.dirname(os.path.dirname(os.path.dirname(os.path.abspath(__file__))))
        env["PYTHONPATH"] = f"{root}/hugr-py/src"
        tmp = tempfile.mkdtemp(prefix="c17schema.")
        try:
            script = os.path.join(root, "scripts/generate_schema.py")
            if not os.path.exists(script):
                script = "/repo/scripts/generate_schema.py"
            out = subprocess.run([sys.executable, script, tmp], env=env, capture_output=True, text=True, timeout=600)
            if out.returncode != 0:
                raise RuntimeError("generate_schema.py failed: " + out.stderr[-2000:])
            docs = {}
            for f in os.listdir(tmp):
                docs[f] = json.load(open(os.path.join(tmp, f)))
            env["PYTHONPATH"] = f"{here}:{root}/hugr-py/src"
            ver = subprocess.run([sys.executable, "-c",
                                  "import json;from hugr._serialization.serial_hugr import SerialHugr, serialization_version;"
                                  "from hugr._serialization.extension import Extension, Package;from hugr._serialization.testing_hugr import TestingHugr;"
                                  "print(json.dumps([serialization_version(), SerialHugr.get_version(), TestingHugr.get_version(), Extension.get_version(), Package.get_version()]))"],
                                 env=env, capture_output=True, text=True, timeout=120)
            if ver.returncode != 0:
                raise RuntimeError(ver.stderr[-1500:])
            _GEN_CACHE[root] = (docs, json.loads(ver.stdout))
        finally:
            shutil.rmtree(tmp, ignore_errors=True)
    docs, versions = _GEN_CACHE[root]
    prefix = ("testing_hugr_schema" if which == "testing" else "hugr_schema") + ("_strict" if mode == "strict" else "")
    version = versions[0]
    name = f"{prefix}_{version}.json"
    if name not in docs:
        raise RuntimeError(f"generate_schema.py did not write {name}: wrote {sorted(docs)}")
    return {"version": version, "serialization_version": versions[0], "ext_version": versions[3], "package_version": versions[4],
            "models_versions": versions, "schema": docs[name]}


def schema_equivalence(prefix, which, mode, known=None, seed=0):
    t0 = time.time()
    res = CustomResult(name=f"schema_equivalence[{prefix}]", verdict="holds")
    gen = regenerate(which, mode)
    version = gen["version"]
    path = os.path.join(_root(), "specification/schema", f"{prefix}_{version}.json")
    res.functions = {"hugr._serialization (pydantic models) -> models_json_schema": {"file": "hugr-py/src/hugr/_serialization", "config": mode},
                     "published": {"file": os.path.relpath(path, _root())}}
    if not os.path.exists(path):
        res.verdict = "violated"
        res.violations.append({"clause": "published_file_for_version_exists", "inputs": {"file": path, "version": version},
                               "detail": f"models report schema version {version!r} but {path} does not exist", "known": None})
        return res
    if len(set(gen["models_versions"])) != 1:
        res.verdict = "violated"
        res.violations.append({"clause": "one_version_string", "inputs": gen | {"schema": None}, "detail": "version strings of the models disagree", "known": None})
    pub = json.load(open(path))
    cmp = schema_smt.compare_documents(pub, gen["schema"])
    res.q_sat, res.q_unsat, res.q_unknown, res.solver_s = cmp["q_sat"], cmp["q_unsat"], cmp["q_unknown"], cmp["solver_s"]
    res.obligations = len(cmp["defs"]) + 2
    res.discharged = sum(1 for d in cmp["defs"].values() if d["verdict"] == "equivalent")
    for nm in cmp["missing_in_b"]:
        res.violations.append({"clause": "definition_missing_from_models", "inputs": {"definition": nm}, "detail": f"published $defs/{nm} is not generated by the models", "known": None})
    for nm in cmp["missing_in_a"]:
        res.violations.append({"clause": "definition_missing_from_published", "inputs": {"definition": nm}, "detail": f"models define $defs/{nm} which the published file lacks", "known": None})
    if not cmp["missing_in_a"] and not cmp["missing_in_b"]:
        res.discharged += 1
    for nm, d in cmp["defs"].items():
        if d["verdict"] == "differ":
            if d["confirmed"]:
                who = "published accepts, models reject" if d["accepted_by_a"] else "models accept, published rejects"
                res.violations.append({"clause": f"definition_equivalent:{nm}", "inputs": {"definition": nm, "witness": d["witness"]},
                                       "detail": f"jsonschema-confirmed witness ({who}): {json.dumps(d['witness'])[:300]}", "known": None})
            else:
                res.notes.append(f"$defs/{nm}: solver found a difference but the concretised witness did not separate the validators "
                                 f"(witness {json.dumps(d['witness'])[:200]}); inconclusive")
                res.verdict = "inconclusive"
        elif d["verdict"] in ("unknown", "unsupported"):
            res.notes.append(f"$defs/{nm}: {d['verdict']} {d.get('why', '')}")
            res.verdict = "inconclusive"
    ann = cmp["annotation_diffs"]
    if not ann:
        res.discharged += 1
    for x in ann:
        res.violations.append({"clause": f"annotation_equal:{x['keyword']}", "inputs": x, "detail": f"{x['where']}: {x['keyword']} published={x['a']!r} models={x['b']!r}", "known": None})
    if res.violations:
        res.verdict = "violated"
    res.samples = [{"definition": nm, "verdict": d["verdict"]} for nm, d in list(cmp["defs"].items())[:3]]
    res.extra = {"definitions": len(cmp["defs"]), "equivalent": sum(1 for d in cmp["defs"].values() if d["verdict"] == "equivalent"), "file": os.path.relpath(path, _root())}
    res.wall_s = time.time() - t0
    return res


def _replay(data):
    import jsonschema
    prefix = data["args"][0]
    _, which, mode = next(f for f in FILES if f[0] == prefix)
    gen = regenerate(which, mode)
    path = os.path.join(_root(), "specification/schema", f"{prefix}_{gen['version']}.json")
    if not os.path.exists(path):
        return True
    pub = json.load(open(path))
    inp = data.get("inputs") or {}
    if "witness" in inp:
        nm = inp["definition"]
        va = jsonschema.Draft202012Validator({"$ref": f"#/$defs/{nm}", "$defs": pub["$defs"]}).is_valid(inp["witness"])
        vb = jsonschema.Draft202012Validator({"$ref": f"#/$defs/{nm}", "$defs": gen["schema"]["$defs"]}).is_valid(inp["witness"])
        return va != vb
    cmp = schema_smt.compare_documents(pub, gen["schema"])
    return bool(cmp["missing_in_a"] or cmp["missing_in_b"] or cmp["annotation_diffs"])


lemma("C17", name="schema_equivalence", kind="custom", params=FILES,
      bounds="every $defs entry of the four published schema files vs the documents written by the repository's own scripts/generate_schema.py "
             "from the current models (all four configurations, in the script's order, in one process)",
      outside="pydantic's own fidelity between model and generated schema (the definitional bridge the statement uses); 'title'/'description' annotations",
      unbounded="documents of any size and nesting depth (per-definition equivalence + coinduction over $ref)",
      opts={"replay": _replay})(schema_equivalence)
