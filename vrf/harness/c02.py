"""C02 — JSON round trip of a HUGR is lossless and a fixed point (store level).

L1: a store with holes (deleted nodes, optional index reuse), metadata on a symbolic subset of
nodes and <= E symbolic links (incl. order links) between live nodes is serialised with the real
`_to_serial` and reloaded with the real `_from_serial`; the result must denote the image of the
original under the order-preserving renumbering.  (Per-operation attribute round trips: C05.)
"""
from hugr import ops, tys
from hugr.hugr import Hugr
from hugr.hugr.node_port import InPort, Node, OutPort

from vrf.harness import store
from vrf.lemma import P, lemma
from vrf.symx import sym

PARENTS = [None, 0, 0, 1, 0, 2]  # creation-time hierarchy of nodes 0..5


ARITY = {1: (2, 2), 2: (0, 2), 3: (2, 0), 4: (1, 1), 5: (2, 2), 9: (1, 2)}  # node index -> (inputs, outputs)


def _op(i, n_in=None, n_out=None):
    B = tys.Bool
    n_in = ARITY.get(i, (2, 2))[0] if n_in is None else n_in
    n_out = ARITY.get(i, (2, 2))[1] if n_out is None else n_out
    return ops.Custom(f"n{i}", tys.FunctionType([B] * n_in, [B] * n_out), extension="store")


def deletion_masks(n):
    """All sets of nodes deletable leaf-first from the PARENTS hierarchy."""
    out = []

    def rec(live, chosen, start):
        out.append(tuple(chosen))
        for i in range(start, 0, -1):
            if i in live and not any(PARENTS[j] == i and j in live for j in range(n)):
                rec([x for x in live if x != i], chosen + [i], i - 1)
    rec(list(range(n)), [], n - 1)
    # deleting a parent after its children: also allow orders where the parent has a higher index
    seen, res = set(), []
    for m in out:
        k = tuple(sorted(m))
        if k not in seen:
            seen.add(k)
            res.append(m)
    return res


def holey_hugr(n, tag="", dels=None):
    """Hugr with nodes 0..n-1 (hierarchy PARENTS), then a symbolic subset of leaves deleted and
    optionally one node re-added (index reuse). Returns (hugr, live indices in index order)."""
    h = Hugr(ops.DFG([], []))
    nodes = [h.root]
    with_meta = sym.concretize(sym.bool(f"{tag}meta"))
    for i in range(1, n):
        md = {"k": i} if (i % 2 == 1 and with_meta) else None
        nodes.append(h.add_node(_op(i), nodes[PARENTS[i]], num_outs=ARITY[i][1], metadata=md))
    live = list(range(n))
    for i in range(n - 1, 0, -1):  # children before parents
        if not any(PARENTS[j] == i and j in live for j in range(n)):
            if (i in dels) if dels is not None else sym.concretize(sym.bool(f"{tag}del{i}")):
                h.delete_node(nodes[i])
                live.remove(i)
    sym.predicate(f"{tag}has_deleted_nodes", len(live) < n)
    if len(live) < n and sym.concretize(sym.bool(f"{tag}readd")):
        under_last = len(live) > 1 and sym.concretize(sym.bool(f"{tag}readd_under_last_node"))
        new = h.add_node(_op(9), nodes[live[-1]] if under_last else nodes[0], num_outs=ARITY[9][1], metadata={"new": True})
        live = sorted(live + [new.idx])
        h._arity_of_reused = new.idx
    return h, live


def live_links(E, live, tag="l", max_off=None, arity=None):
    cands = [i for i in live if i != 0]
    out = []
    if not cands:
        return out
    for i in range(E):
        p = True if i == 0 else sym.bool(f"{tag}{i}.present")
        a = cands[sym.concretize(sym.int(f"{tag}{i}.src", 0, min(len(cands), P(2, 3)) - 1))]
        b = cands[sym.concretize(sym.int(f"{tag}{i}.dst", 0, len(cands) - 1))]
        if sym.concretize(sym.bool(f"{tag}{i}.order")):
            o, q = -1, -1
        else:
            o = sym.int(f"{tag}{i}.out", 0, max_off)
            q = sym.int(f"{tag}{i}.in", 0, P(0, max_off))
            if arity is not None:
                # value links only on ports the operations have (an offset past the signature denotes the order port on the wire)
                sym.assume(sym.and_(o < arity(a)[1], q < arity(b)[0]))
        out.append(store.Link(p, a, o, b, q))
    return out


def written_order(h, live):
    """Reference: nodes in index order wherever compatible with 'parent before child' and
    'siblings in child order' (what a reader that appends children in list order needs)."""
    out, emitted = [], set()
    pending = list(live)
    while pending:
        for idx in pending:  # smallest index whose constraints are met
            d = h[Node(idx)]
            if d.parent is not None:
                if d.parent.idx not in emitted:
                    continue
                sib = [c.idx for c in h.children(d.parent)]
                pos = sib.index(idx)
                if pos > 0 and sib[pos - 1] not in emitted:
                    continue
            out.append(idx)
            emitted.add(idx)
            pending.remove(idx)
            break
        else:
            raise AssertionError("hierarchy not a tree")
    return out


def check_image(h, h2, live, links, tag):
    order = written_order(h, live)
    sym.predicate(f"{tag}.index_order_incompatible_with_child_order", order != sorted(live))
    rank = {idx: r for r, idx in enumerate(order)}
    sym.check(f"{tag}:node_count", len(h2) == len(live) and [n.idx for n in h2] == list(range(len(live))))
    ok = True
    for idx in live:
        d, d2 = h[Node(idx)], h2[Node(rank[idx])]
        ok = ok and (d2.op == d.op or (type(d2.op) is type(d.op) and d2.op._to_serial(Node(0)) == d.op._to_serial(Node(0))))
        ok = ok and ((d.parent is None and d2.parent is None) or (d.parent is not None and d2.parent is not None and d2.parent.idx == rank[d.parent.idx]))
        ok = ok and [c.idx for c in h2.children(Node(rank[idx]))] == [rank[c.idx] for c in h.children(Node(idx))]
    sym.check(f"{tag}:ops_parents_child_order_preserved", ok)
    okm = True
    for idx in live:
        okm = okm and dict(h2[Node(rank[idx])].metadata) == dict(h[Node(idx)].metadata)
    sym.check(f"{tag}:metadata_preserved", okm)
    sym.check(f"{tag}:root_preserved", h2.root.idx == rank[h.root.idx] == 0)
    # links: ordered per-port lists at a symbolic query port, both ends, incl. order ports
    cands = [i for i in live if i != 0]
    ok_s, ok_t = True, True
    for v in cands:
        for o in (-1, 0, 1, 2):
            got = list(h2.linked_ports(OutPort(Node(rank[v]), o)))
            want = [(rank[sym.concretize(b)], q) for (b, q) in store.targets(links, v, o)]
            ok_s = sym.and_(ok_s, store.same_ports(got, want))
            got = list(h2.linked_ports(InPort(Node(rank[v]), o)))
            want = [(rank[sym.concretize(a)], q) for (a, q) in store.sources(links, v, o)]
            ok_t = sym.and_(ok_t, store.same_ports(got, want))
    sym.check(f"{tag}:links_from_source_end_preserved", ok_s)
    sym.check(f"{tag}:links_from_target_end_preserved", ok_t)
    order_links = 0
    for n2 in h2:
        order_links += len(list(h2.outgoing_order_links(n2)))
    want_order = 0
    for l in links:
        if sym.concretize(sym.and_(l.p, l.o == -1)):
            want_order += 1
    sym.check(f"{tag}:order_links_still_reported_as_order_links", order_links == want_order)
    n_live_links = 0
    for l in links:
        if sym.concretize(l.p):
            n_live_links += 1
    sym.check(f"{tag}:link_count_preserved", len(list(h2.links())) == n_live_links)


@lemma("C02", params=lambda: [(m,) for m in deletion_masks(P(4, 5))],
       bounds="one task per deletable set of nodes; stores of 4 nodes (quick) / 5 (thorough) in a 3-level hierarchy, any subset of leaves deleted, optional index reuse, metadata on the odd nodes or on none, <= 2 optional links between live nodes, the first always present, each a value link (source offsets 0..1 quick / 0..2 thorough, target offset 0 quick / 0..2 thorough) or an order link",
       outside="the JSON text leg (pydantic dump/parse) is exercised by the native replay of every path, not symbolically",
       opts={"max_paths": 400000, "timeout_s": 3000})
def to_serial_from_serial(dels):
    n = P(4, 5)
    h, live = holey_hugr(n, dels=dels)
    reused = getattr(h, "_arity_of_reused", None)
    links = live_links(2, live, max_off=P(1, 2), arity=lambda i: ARITY[9] if i == reused else ARITY[i])
    sym.predicate("has_order_link", any(isinstance(l.o, int) and l.o == -1 for l in links))
    sym.predicate("has_metadata", any(h[Node(i)].metadata for i in live))
    store.attach_links(h, links, {i: (ARITY[9] if i == reused else ARITY[i])[1] for i in live if i != 0})
    s = h._to_serial()
    h2 = Hugr._from_serial(s)
    check_image(h, h2, live, links, "rt")
    if not sym.symbolic():
        # text leg, natively: JSON -> load -> JSON is a fixed point
        j1 = h.to_json()
        h3 = Hugr.load_json(j1)
        import json
        sym.check("rt:json_fixed_point", json.loads(h3.to_json()) == json.loads(j1))
    else:
        sym.check("rt:json_fixed_point", True)


@lemma("C02", params=lambda: [(i,) for i in range(8)],
       bounds="the 8 builder program templates followed by a mutation tail of 0..1 (quick) / 0..2 (thorough) steps chosen by the solver (delete a leaf "
              "operation node together with nothing else, add a node reusing a freed index, add a metadata entry, add an order link between siblings), "
              "then Hugr.load_json(h.to_json()): same JSON value on re-serialisation and same observable structure up to the written order",
       outside="longer mutation histories; attribute-level losses are C05's subject", opts={"max_paths": 100000, "timeout_s": 1500})
def json_roundtrip_of_programs(k):
    import json
    from vrf.harness import programs
    from vrf.harness.common import structure
    h = programs.MODULES[k]().hugr
    leaves = [n for n in h if not h.children(n) and n != h.root and isinstance(h[n].op, ops.Custom)]
    for s in range(sym.concretize(sym.int("mutations", 0, P(1, 2)))):
        kind = sym.concretize(sym.int(f"mut{s}.kind", 0, 3))
        if kind == 0 and leaves:
            victim = leaves.pop(sym.concretize(sym.int(f"mut{s}.victim", 0, len(leaves) - 1)))
            h.delete_node(victim)
        elif kind == 1:
            par = h[h.children(h.root)[-1]].parent if not h.children(h.children(h.root)[-1]) else h.children(h.root)[-1]
            h.add_node(_op(9, 0, 0), par, num_outs=0, metadata={"added": s})
        elif kind == 2:
            tgt = list(h)[sym.concretize(sym.int(f"mut{s}.node", 0, min(3, len(h) - 1)))]
            h[tgt].metadata[f"m{s}"] = {"v": [s, None, "ü"]}
        elif leaves and len(leaves) >= 1:
            a = leaves[0]
            sibs = [c for c in h.children(h[a].parent) if c != a and isinstance(h[c].op, ops.Custom)]
            if sibs:
                h.add_order_link(a, sibs[0])
    j1 = h.to_json()
    h2 = Hugr.load_json(j1)
    j2 = h2.to_json()
    sym.check("reserialises_to_same_json_value", json.loads(j1) == json.loads(j2))
    live = [n.idx for n in h]
    order = written_order(h, live)
    rank = {idx: r for r, idx in enumerate(order)}
    ok = len(h2) == len(live)
    if ok:
        for idx in live:
            d, d2 = h[Node(idx)], h2[Node(rank[idx])]
            ok = ok and (type(d2.op) is type(d.op) or (isinstance(d.op, ops.AsExtOp) and isinstance(d2.op, ops.Custom)))
            ok = ok and dict(d2.metadata) == dict(d.metadata)
            ok = ok and [c.idx for c in h2.children(Node(rank[idx]))] == [rank[c.idx] for c in h.children(Node(idx))]
    sym.check("same_ops_hierarchy_child_order_metadata", ok)
    l1 = sorted((rank[s.node.idx], s.offset, rank[t.node.idx], t.offset) for s, t in h.links())
    l2 = sorted((s.node.idx, s.offset, t.node.idx, t.offset) for s, t in h2.links())
    sym.check("same_multiset_of_links_including_order_links", l1 == l2)
    j3 = Hugr.load_json(j2).to_json()
    sym.check("fixed_point", json.loads(j3) == json.loads(j2))
