"""A small library of well-formed builder programs (templates with parameters), shared by the
integration lemmas (C01, C02, C03, C09, C12, C20)."""
from hugr import ext, ops, tys, val
from hugr.build.cfg import Cfg
from hugr.build.dfg import Dfg
from hugr.build.function import Module
from hugr.build.tracked_dfg import TrackedDfg

from vrf.lemma import native

B, Q = tys.Bool, tys.Qubit


@native
def cust(name, ins, outs):
    return ops.Custom(name, tys.FunctionType(list(ins), list(outs)), extension="test.ext")


@native
def module_simple(name="main", meta=None, n_ops=1):
    """Module with one function: Not-like custom ops in a chain, a constant load and a state-order edge."""
    m = Module()
    f = m.define_function(name, [B, Q])
    b, q = f.inputs()
    last = None
    for i in range(n_ops):
        nd = f.add_op(cust(f"op{i}", [B], [B, B]), b, metadata=meta)
        b = nd[0]                      # second output stays unused
        if last is not None:
            f.add_state_order(last, nd)
        last = nd
    c = f.load(val.TRUE)
    f.set_outputs(b, q, c)
    return m


@native
def module_calls(poly=False):
    """Module: a declared and a defined function, called twice, function loaded as value and called indirectly."""
    m = Module()
    decl = m.declare_function("ext_fn", tys.PolyFuncType([], tys.FunctionType([B], [B])))
    g = m.define_function("g", [B], [B])
    g.set_outputs(*g.inputs())
    f = m.define_function("main", [B])
    (b,) = f.inputs()
    c1 = f.call(decl, b)
    c2 = f.call(g, c1[0])
    c3 = f.call(g, c2[0])
    lf = f.load_function(g)
    ci = f.add_op(ops.CallIndirect(), lf, c3[0])
    # a row-polymorphic function (forall r. r -> r) instantiated at rows of length 2 and 0: the instantiated
    # arity differs from the polymorphic body's
    rowp = m.declare_function("row<poly>.fn", tys.PolyFuncType([tys.ListParam(tys.TypeTypeParam(tys.TypeBound.Any))],
                                                                tys.FunctionType([tys.RowVariable(0, tys.TypeBound.Any)], [tys.RowVariable(0, tys.TypeBound.Any)])))
    r2 = f.call(rowp, ci[0], c1[0], instantiation=tys.FunctionType([B, B], [B, B]),
                type_args=[tys.SequenceArg([tys.TypeTypeArg(B), tys.TypeTypeArg(B)])])
    r0 = f.call(rowp, instantiation=tys.FunctionType([], []), type_args=[tys.SequenceArg([])])
    f.add_state_order(r2, r0)
    f.set_outputs(r2[1])
    return m


@native
def module_nested(non_local=True):
    """Module: nested DFG fed by an Ext wire, conditional, tail loop."""
    m = Module()
    f = m.define_function("main", [B, Q])
    b, q = f.inputs()
    with f.add_nested(q) as inner:
        (qi,) = inner.inputs()
        if non_local:
            n = inner.add_op(cust("use_outer", [B, Q], [Q]), b, qi)   # b is a non-local (Ext) wire
        else:
            n = inner.add_op(cust("local", [Q], [Q]), qi)
        inner.set_outputs(n[0])
    with f.add_conditional(b, inner[0]) as cond:
        for j in range(2):
            with cond.add_case(j) as case:
                case.set_outputs(*case.inputs())
    with f.add_tail_loop([b], [cond[0]]) as tl:
        bi, qq = tl.inputs()
        brk = tl.add_op(ops.Tag(1, tys.Sum([[B], [B, B]])), bi, bi)    # just_outputs longer than just_inputs
        tl.set_loop_outputs(brk, qq)
    *_, last = tl                                                   # the linear value is the LAST loop output
    # container nodes carry metadata and state-order edges of their own
    for j, nd in enumerate([inner.parent_node, cond.parent_node, tl.parent_node]):
        f.hugr[nd].metadata[f"container{j}"] = {"idx": j}
    f.add_state_order(inner.parent_node, cond.parent_node)
    f.add_state_order(cond.parent_node, tl.parent_node)
    f.add_state_order(inner.parent_node, tl.parent_node)          # a node with two order predecessors (and one with two successors)
    f.set_outputs(tl[0], last)
    return m


@native
def module_cfg(dom_edge=True):
    """Module: function containing a CFG with entry, one successor block (using a Dom wire), exit."""
    m = Module()
    f = m.define_function("main", [B, Q])
    b, q = f.inputs()
    with f.add_cfg(b, q) as cfg:
        with cfg.add_entry() as entry:
            be, qe = entry.inputs()
            keep = entry.add_op(cust("mk", [B], [B]), be)
            entry.set_single_succ_outputs(qe)
        with cfg.add_successor(entry[0]) as blk:
            (qb,) = blk.inputs()
            if dom_edge:
                x = blk.add_op(cust("use_dom", [B, Q], [Q]), keep[0], qb)   # Dom edge from the entry block
            else:
                x = blk.add_op(cust("plain", [Q], [Q]), qb)
            blk.set_single_succ_outputs(x[0])
        cfg.branch_exit(blk[0])
    k = f.load(val.TRUE)
    f.add_state_order(k, cfg.parent_node)
    f.hugr[cfg.parent_node].metadata["cfg"] = "meta"
    f.hugr[blk.parent_node].metadata["block"] = ["meta"]
    f.set_outputs(cfg[0])
    return m


@native
def module_values():
    """Module with constants of several shapes, loaded more than once."""
    from hugr.std.int import IntVal
    m = Module()
    f = m.define_function("main", [])
    c = f.add_const(val.Tuple(val.TRUE, val.Some(val.FALSE)))
    l1 = f.load(c)
    l2 = f.load(c)
    i = f.load(IntVal(3, 5))
    from hugr.std.int import _DivModDef
    i6 = f.load(IntVal(1, 6))
    dm5 = f.add_op(_DivModDef(5), i, i)                    # the same registered op class twice, instantiated differently
    dm6 = f.add_op(_DivModDef(6), i6, i6)
    e = f.load(val.Sum(1, tys.Sum([[], []]), []))          # general sum whose rows are all empty
    o = f.load(val.None_())                                # Option() : [[], []] as well
    f.set_outputs(l1, l2, i, e, o)
    return m


@native
def module_tracked():
    m = Module()
    t = TrackedDfg(Q, Q, track_inputs=True)
    t.add(cust("h", [Q], [Q])(0))
    t.add(cust("cx", [Q, Q], [Q, Q])(0, 1))
    k = t.load(val.TRUE)
    t.add(cust("ctrl", [B, Q], [B, Q])(k, 0))      # an explicit wire BEFORE a tracked index: index 0 is rebound to output 1
    t.add(cust("h2", [Q], [Q])(0))
    t.set_tracked_outputs()
    f = m.define_function("main", [Q, Q])
    n = f.insert_nested(t, *f.inputs())
    f.set_outputs(n[0], n[1])
    return m


@native
def module_unicode():
    m = Module()
    f = m.define_function("höf→λ", [B])
    n = f.add_op(cust("оп", [B], [B]), *f.inputs(), metadata={"名前": "ßçé ✓", "k": [1, {"x": None}]})
    f.set_outputs(n[0])
    m.hugr.root.metadata["note"] = "ünïcödé"
    return m


@native
def module_attrs():
    """Module whose operations carry unusual attribute values: a nat parameter without an upper bound (a null in the document), an
    extension constant with a null payload, a tail loop with a non-empty, unsorted extension delta, a CFG whose branches merge."""
    m = Module()
    natp = m.declare_function("nat_poly", tys.PolyFuncType([tys.BoundedNatParam(), tys.BoundedNatParam(7)], tys.FunctionType([B], [B])))
    f = m.define_function("main", [B, Q])
    b, q = f.inputs()
    c = f.call(natp, b, instantiation=tys.FunctionType([B], [B]), type_args=[tys.BoundedNatArg(3), tys.BoundedNatArg(2)])
    k = f.load(val.Extension("null_payload", tys.Opaque("T0", tys.TypeBound.Copyable, [], "test.ext"), None, ["test.ext"]))
    f.add_op(cust("use_k", [tys.Opaque("T0", tys.TypeBound.Copyable, [], "test.ext")], []), k)
    with f.add_tail_loop([c[0]], [q]) as tl:
        bi, qq = tl.inputs()
        brk = tl.add_op(ops.Tag(1, tys.Sum([[B], []])), )
        tl.set_loop_outputs(brk, qq)
    tl.parent_op.extension_delta = ["zz.ext", "aa.ext"]
    with f.add_cfg(b, tl[0]) as cfg:
        with cfg.add_entry() as entry:
            be, qe = entry.inputs()
            entry.set_block_outputs(be, qe)
        with cfg.add_successor(entry[0]) as left:
            left.set_single_succ_outputs(*left.inputs())
        with cfg.add_successor(entry[1]) as right:
            right.set_single_succ_outputs(*right.inputs())
        cfg.branch_exit(left[0])
        cfg.branch_exit(right[0])
    lf = f.load_function(natp, instantiation=tys.FunctionType([B], [B]), type_args=[tys.BoundedNatArg(0), tys.BoundedNatArg(0)])
    f.add_state_order(c, lf)                                # a state-order edge INTO a load_function node
    f.add_op(cust("use_fn", [tys.FunctionType([B], [B])], []), lf)
    # a function-valued constant whose body carries node metadata
    body = Dfg(B)
    nb = body.add_op(cust("in_body", [B], [B]), *body.inputs(), metadata={"inside": ["function", "value"]})
    body.set_outputs(nb[0])
    body.hugr[body.hugr.root].metadata["body_root"] = 1
    fv = f.load(val.Function(body.hugr))
    f.add_op(cust("use_fv", [tys.FunctionType([B], [B])], []), fv)
    f.set_outputs(cfg[0])
    return m


MODULES = [module_simple, module_calls, module_nested, module_cfg, module_values, module_tracked, module_unicode, module_attrs]


@native
def extension_small(name="ext.ünï", with_binary=False):
    # (the variant with binary definitions also has a version with pre-release and build parts)
    e = ext.Extension(name, ext.Version(0, 2, 1, prerelease="rc.1", build="b5") if with_binary else ext.Version(0, 2, 1), runtime_reqs={"prelude"})
    td = e.add_type_def(ext.TypeDef("T", "a type ✓", [tys.TypeTypeParam(tys.TypeBound.Any)], ext.FromParamsBound([0])))
    e.add_type_def(ext.TypeDef("C", "copyable", [tys.BoundedNatParam(None), tys.BoundedNatParam(7)], ext.ExplicitBound(tys.TypeBound.Copyable)))
    e.add_op_def(ext.OpDef("Op", ext.OpDefSig(tys.PolyFuncType([tys.TypeTypeParam(tys.TypeBound.Any)],
                                                                  tys.FunctionType([tys.Variable(0, tys.TypeBound.Any)], [td.instantiate([tys.Variable(0, tys.TypeBound.Any).type_arg()])]))),
                           "desc ✓", {"k": 1}))
    if with_binary:
        e.add_op_def(ext.OpDef("Bin", ext.OpDefSig(None, True), "binary"))
        e.add_op_def(ext.OpDef("BinWithSig", ext.OpDefSig(tys.FunctionType([B], [B]), True), "binary, with a static signature as well"))
    e.add_extension_value(ext.ExtensionValue("v", val.TRUE))
    return e
