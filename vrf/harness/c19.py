"""C19 — shot results -> register bitstrings by the documented (replay-in-order) convention."""
import re

from hugr.qsystem.result import QsysResult, QsysShot

# the documented tag grammar for an indexed write, "name[n]": a lower-case-initial identifier followed by a decimal index in
# brackets (the oracle's own copy: the implementation's pattern is part of what is checked)
REG_INDEX_PATTERN = re.compile(r"^([a-z][A-Za-z0-9_]*)\[([0-9]+)\]$")

from vrf.lemma import P, lemma
from vrf.symx import sym

TAGS_Q = ["c", "c[0]", "c[1]", "d", "c[10]", "C[0]"]
TAGS_T = TAGS_Q + ["d[0]", "c[x]", "c[2]", "c_1[0]"]


class _Bad(Exception):
    pass


def _bit_ref(x):
    """Reference bit: (is '1', is a valid bit) without forking."""
    if isinstance(x, bool) or (sym.is_symbolic(x) and type(x).__name__ == "SymBool"):
        return (x == True, True)  # noqa: E712
    if not isinstance(x, int):
        return (False, False)
    return (x == 1, sym.or_(x == 0, x == 1))


def _ref_register_bits(entries):
    """The statement, as code: replay the entries in order as writes.
    Returns ({register: [is_one, ...]}, all_values_are_bits)."""
    regs = {}
    valid = True
    for tag, data in entries:
        m = REG_INDEX_PATTERN.match(tag)
        if m:
            name, n = m[1], int(m[2])
            if isinstance(data, list):
                valid = False
                continue
            one, ok = _bit_ref(data)
            valid = sym.and_(valid, ok)
            bits = regs.setdefault(name, [])
            while len(bits) < n + 1:
                bits.append(False)
            bits[n] = one
        elif isinstance(data, list):
            rs = [_bit_ref(v) for v in data]
            regs[tag] = [r[0] for r in rs]
            for r in rs:
                valid = sym.and_(valid, r[1])
        else:
            one, ok = _bit_ref(data)
            regs[tag] = [one]
            valid = sym.and_(valid, ok)
    return regs, valid


def _same_bits(got, want):
    """got: {reg: str}; want: {reg: [is_one]} -> symbolic equality + all chars are 0/1."""
    if sorted(got.keys()) != sorted(want.keys()):
        return False, False
    eq, chars = True, True
    for r in want:
        s, bits = got[r], want[r]
        n = len(s)
        if n != len(bits):
            return False, chars
        for j in range(n):
            ch = s[j]
            eq = sym.and_(eq, sym.iff(ch == "1", bits[j]), sym.iff(ch == "0", sym.not_(bits[j])))
            chars = sym.and_(chars, sym.or_(ch == "0", ch == "1"))
    return eq, chars


def _prim(name, bools=True):
    kind = sym.concretize(sym.int(name + ".kind", 0, 1)) if bools else 0
    if kind == 0:
        return sym.int(name + ".i")
    return sym.bool(name + ".b")


def _data(name, bools=True, maxlen=2):
    shape = sym.concretize(sym.int(name + ".shape", 0, 1))
    if shape == 0:
        return _prim(name, bools)
    ln = sym.concretize(sym.int(name + ".len", 0, maxlen))
    return [_prim(f"{name}.{j}", bools) for j in range(ln)]


@lemma("C19", params=lambda: [(i,) for i in range(len(P(TAGS_Q, TAGS_T)))],
       unbounded="integer data values (any int), bool data values",
       bounds="shots of <= 2 entries (quick) / 3 (thorough: ints only); tags from a pool of 6 (quick) / 9 (thorough) covering whole-register, "
              "indexed, non-matching (upper case, non-numeric index) and a 2-digit index; data shape int | bool | list of <= 2; "
              "one task per tag of the first entry; the shot is converted once before its last entry is appended and again afterwards",
       outside="longer shots, lists longer than 2, tags outside the pool's shapes, floats (rejected like any non-bit)",
       opts={"max_paths": 400000, "timeout_s": 3000})
def register_bits_replay_semantics(first_tag):
    tags = P(TAGS_Q, TAGS_T)
    k = sym.concretize(sym.int("k", 1, P(2, 3)))
    entries = [(tags[first_tag], _data("e0", True))]
    rich = P(True, False)  # thorough (3 entries): later entries carry ints only, lists of <= 1
    for j in range(1, k):
        t = tags[sym.concretize(sym.int(f"tag{j}", 0, len(tags) - 1))]
        entries.append((t, _data(f"e{j}", rich, 2 if rich else 1)))
    # history: the shot is converted once before its last entry arrives (append), then again
    shot = QsysShot(entries[:-1])
    try:
        shot.to_register_bits()
    except ValueError:
        pass
    shot.append(*entries[-1])
    want, valid = _ref_register_bits(entries)
    sym.predicate("bool_valued_bit", _has_bool(entries))
    sym.predicate("duplicate_or_interleaved_register", _dup(entries))
    try:
        got = shot.to_register_bits()
        got_err = False
    except ValueError:
        got, got_err = None, True
    sym.check("valueerror_iff_some_non_bit", sym.iff(got_err, sym.not_(valid)))
    if got is not None:
        eq, chars = _same_bits(got, want)
        sym.check("only_0_1_characters", chars)
        sym.check("equals_in_order_replay", sym.implies(valid, eq))
        eq2, _ = _same_bits(QsysShot(list(entries)).to_register_bits(), want)
        sym.check("shot_built_at_once_equals_replay", sym.implies(valid, eq2))


@lemma("C19", bounds="the empty shot")
def empty_shot():
    sym.check("empty_shot_no_registers", QsysShot([]).to_register_bits() == {})
    sym.check("empty_result", QsysResult([]).register_bitstrings() == {})


def _has_bool(entries):
    for _, d in entries:
        for x in (d if isinstance(d, list) else [d]):
            if isinstance(x, bool) or (sym.is_symbolic(x) and type(x).__name__ == "SymBool"):
                return True
    return False


def _dup(entries):
    names = []
    for t, _ in entries:
        m = REG_INDEX_PATTERN.match(t)
        names.append(m[1] if m else t)
    return len(set(names)) < len(names)


@lemma("C19", bounds="<= 3 entries (quick: the third shape only with scalar data; interleaved tags a, b, a included); data nested lists of depth <= 2 with <= 2 elements, bits symbolic", outside="deeper nesting")
def collate_and_flatten():
    tags = ["a", "b", "a[0]"]
    k = sym.concretize(sym.int("k", 0, 3))
    entries = []
    for j in range(k):
        t = tags[sym.concretize(sym.int(f"tag{j}", 0, 2))]
        shape = sym.concretize(sym.int(f"shape{j}", 0, 2)) if (k < 3 or P(False, True)) else 0   # quick: three entries only as scalars
        if shape == 0:
            d = sym.int(f"v{j}", 0, 1)
        elif shape == 1:
            d = [sym.int(f"v{j}.{i}", 0, 1) for i in range(sym.concretize(sym.int(f"len{j}", 0, 2)))]
        else:
            d = [[sym.int(f"v{j}.0", 0, 1)], sym.int(f"v{j}.1", 0, 1)]
        entries.append((t, d))
    shot = QsysShot(entries)
    col = shot.collate_tags()
    # reference: per tag, all values of the shot in entry order
    ref = {}
    for t, d in entries:
        ref.setdefault(t, []).append(d)
    sym.check("collate_groups_in_entry_order", sorted(col.keys()) == sorted(ref.keys()) and all(len(col[t]) == len(ref[t]) and all(x is y for x, y in zip(col[t], ref[t])) for t in ref))
    res = QsysResult([shot])
    cc = res.collated_counts()
    sym.check("collated_counts_one_shot", sum(cc.values()) == 1)
    (key,) = list(cc.keys())
    got = dict(key)

    def flat(x):
        out = []
        for i in x:
            if isinstance(i, list):
                out.extend(flat(i))
            else:
                out.append(i)
        return out
    ok = sorted(got.keys()) == sorted(ref.keys())
    if ok:
        for t in ref:
            bits = flat(ref[t])
            s = got[t]
            ok = sym.and_(ok, len(s) == len(bits))
            for j in range(min(len(s), len(bits))):
                ok = sym.and_(ok, s[j] == sym.ite(bits[j] == 1, 1, 0).__str__() if False else sym.iff(s[j] == "1", bits[j] == 1))
    sym.check("collated_bitstrings_concatenate_values", ok)


def _shot(tag, tags, maxk, k=None):
    if k is None:
        k = sym.concretize(sym.int(f"{tag}.k", 0, maxk))
    ents = []
    for j in range(k):
        t = tags[sym.concretize(sym.int(f"{tag}.tag{j}", 0, len(tags) - 1))]
        if t != "c[1]" and sym.concretize(sym.bool(f"{tag}.e{j}.list")):
            d = [sym.int(f"{tag}.e{j}.{i}", 0, 1) for i in range(P(2, sym.concretize(sym.int(f"{tag}.e{j}.len", 1, 2))))]
        else:
            d = sym.int(f"{tag}.e{j}.v", 0, 1)
        ents.append((t, d))
    return ents


@lemma("C19", params=[(0,), (1,), (2,), (3,)],
       bounds="task 3: three shots of <= 1 entry each (a register may first appear in a later shot and change length after that); tasks 0..2: 2 shots with <= 3 entries in total (quick) / 3 shots (thorough; third shot <= 1 entry) of <= 2 entries each over tags {c, d, c[1]}; data a bit or a list of 2 bits (quick) / 1..2 bits (thorough); "
              "bit values and both strict flags symbolic; one task per entry count of the first shot",
       outside="more shots / longer shots", opts={"max_paths": 400000, "timeout_s": 3000})
def multi_shot_strictness(k0):
    tags = ["c", "d", "c[1]"]
    ns = P(2, 3)
    shots = []
    if k0 == 3:
        ns = 0
        shots = [_shot(f"s{s}", tags, 1) for s in range(3)]
    for s in range(ns):
        shots.append(_shot(f"s{s}", tags, (P(1, 2) if k0 == 2 else 2) if s < 2 else 1, k0 if s == 0 else None))
    strict_names = sym.bool("strict_names")
    strict_lengths = sym.bool("strict_lengths")
    per_shot = [_ref_register_bits(e)[0] for e in shots]
    names_differ = any(sorted(p.keys()) != sorted(per_shot[0].keys()) for p in per_shot)
    lens_differ = False
    for r in set(x for p in per_shot for x in p):
        ls = [len(p[r]) for p in per_shot if r in p]
        if len(set(ls)) > 1:
            lens_differ = True
    sym.predicate("later_shot_adds_register", any(len(set(p.keys()) - set(per_shot[0].keys())) > 0 for p in per_shot[1:]))
    res = QsysResult(shots)
    try:
        got = res.register_bitstrings(strict_names=strict_names, strict_lengths=strict_lengths)
        err = False
    except ValueError:
        got, err = None, True
    want_err = sym.or_(sym.and_(strict_names, names_differ), sym.and_(strict_lengths, lens_differ))
    sym.check("strict_options_reject_irregular_results", sym.iff(err, want_err))
    if got is not None:
        want = {}
        for p in per_shot:
            for r, b in p.items():
                want.setdefault(r, []).append(b)
        ok = sorted(got.keys()) == sorted(want.keys())
        if ok:
            for r in want:
                if len(got[r]) != len(want[r]):
                    ok = False
                    break
                for a, b in zip(got[r], want[r]):
                    e, _c = _same_bits({r: a}, {r: b})
                    ok = sym.and_(ok, e)
        sym.check("per_register_lists_in_shot_order", ok)


@lemma("C19", bounds="2 shots of <= 1 entry over tags {c, d}; a bit or a list of 2 bits, values symbolic", outside="more / longer shots")
def register_counts_are_multisets_of_bitstrings():
    shots = [_shot("s0", ["c", "d"], 1), _shot("s1", ["c", "d"], 1)]
    res = QsysResult(shots)
    strs = res.register_bitstrings()
    counts = res.register_counts()
    ok = sorted(counts.keys()) == sorted(strs.keys())
    if ok:
        for r, lst in strs.items():
            ok = ok and sum(counts[r].values()) == len(lst) and all(counts[r][sym.concretize(x)] >= 1 for x in lst)
    sym.check("counts_count_the_per_shot_strings", ok)
