"""C06 — signatures, port kinds and output counts follow the typing rules.

Type rows are lists of pairwise distinct abstract type atoms (so any re-ordering, dropped or
duplicated element is visible) with symbolic lengths 0..R; port offsets are symbolic integers
ranging over the whole row, the order port -1 and one past the end.
"""
from hugr import ops, tys, val
from hugr.hugr import Hugr
from hugr.hugr.node_port import InPort, Node, OutPort

from vrf.lemma import P, lemma
from vrf.symx import sym

_B = [tys.TypeBound.Any, tys.TypeBound.Copyable]


def row(tag, maxlen=None):
    n = sym.concretize(sym.int(f"len.{tag}", 0, maxlen if maxlen is not None else P(2, 3)))
    return [tys.Opaque(f"{tag}{i}", _B[i % 2], [], "atoms") for i in range(n)]


def ft(i, o):
    return tys.FunctionType(i, o)


def _check_ports(op, ins, outs, tag, h=None, node=None):
    """port_kind / port_type for a symbolic offset in both directions, incl. the order port."""
    n = Node(7) if node is None else node
    for direction, r in (("in", ins), ("out", outs)):
        o = sym.int(f"{tag}.{direction}.off", -1, len(r) - 1)
        port = InPort(n, o) if direction == "in" else OutPort(n, o)
        k = op.port_kind(port)
        if sym.concretize(o) == -1:
            sym.check(f"{tag}:order_port_is_OrderKind", isinstance(k, tys.OrderKind))
        else:
            sym.check(f"{tag}:value_port_kind_and_type", isinstance(k, tys.ValueKind) and k.ty == r[o])
            if isinstance(op, ops.DataflowOp):
                sym.check(f"{tag}:port_type_is_kind_payload", op.port_type(port) == k.ty)
            if h is not None:
                sym.check(f"{tag}:hugr_port_kind_type", h.port_kind(port) == k and h.port_type(port) == (k.ty if isinstance(k, tys.ValueKind) else None))


def _set_outputs_twice(op, first, final):
    """Outputs may be set more than once (builders call set_outputs again): set another row first, query everything that is derived
    from it, then set the final row - nothing derived from the first row may survive."""
    op._set_out_types(first)
    for q in (lambda: op.outer_signature(), lambda: op.inner_signature(), lambda: op.num_out, lambda: op.signature, lambda: op.outputs):
        try:
            q()
        except Exception:  # noqa: BLE001  (not every class has every attribute)
            pass
    op._set_out_types(final)


@lemma("C06", bounds="rows of 0..2 (quick) / 0..3 (thorough) distinct atoms; every port offset -1..len-1 symbolic; outputs set twice (another row first, queried, then the final row)")
def dfg_signature():
    i, o = row("i"), row("o")
    op = ops.DFG(i)
    _set_outputs_twice(op, [tys.Qubit, *o], o)
    sym.check("dfg_outer_is_body", op.outer_signature() == ft(i, o) and op.inner_signature() == ft(i, o))
    sym.check("dfg_num_out", op.num_out == len(o))
    _check_ports(op, i, o, "dfg")


@lemma("C06", bounds="sum with 0..3 variants (quick) / 0..4 (thorough) of rows 0..2; other inputs/outputs rows 0..2; variant index symbolic")
def conditional_signature():
    nv = sym.concretize(sym.int("variants", 0, P(3, 4)))
    rows = [row(f"v{j}_", 2) for j in range(nv)]
    other, outs = row("x", 2), row("o", 2)
    s = tys.Sum(rows)
    op = ops.Conditional(s, other, outs)
    sym.check("conditional_inputs_sum_then_others", op.outer_signature() == ft([s, *other], outs))
    sym.check("conditional_num_out", op.num_out == len(outs))
    if nv > 0:
        n = sym.int("case", 0, nv - 1)
        sym.check("case_i_gets_variant_i_then_others", op.nth_inputs(n) == [*rows[sym.concretize(n)], *other])
    _check_ports(op, [s, *other], outs, "cond")


@lemma("C06", bounds="just-inputs, just-outputs, rest rows of 0..2 (quick) / 0..3 (thorough)")
def tailloop_signature():
    ji, jo, rest = row("ji"), row("jo"), row("r")
    op = ops.TailLoop(ji, rest)
    _set_outputs_twice(op, [tys.Sum([ji, [tys.Qubit, *jo]]), *rest], [tys.Sum([ji, jo]), *rest])
    sym.check("loop_outer_in_is_just_inputs_plus_rest", op.outer_signature().input == [*ji, *rest])
    sym.check("loop_outer_out_is_just_outputs_plus_rest", op.outer_signature().output == [*jo, *rest])
    sym.check("loop_body_in", op.inner_signature().input == [*ji, *rest])
    sym.check("loop_body_returns_sum_plus_rest", op.inner_signature().output == [tys.Sum([ji, jo]), *rest])
    sym.check("loop_num_out", op.num_out == len(jo) + len(rest))
    _check_ports(op, [*ji, *rest], [*jo, *rest], "loop")


@lemma("C06", bounds="block with 0..3 successors (quick) / 0..4 (thorough), rows 0..2; successor index symbolic")
def block_signature():
    nv = sym.concretize(sym.int("variants", 0, P(3, 4)))
    rows = [row(f"v{j}_", 2) for j in range(nv)]
    ins, other = row("i", 2), row("x", 2)
    s = tys.Sum(rows)
    op = ops.DataflowBlock(ins)
    _set_outputs_twice(op, [tys.Sum([*rows, [tys.Qubit]]), tys.Qubit, *other], [s, *other])
    sym.check("block_body_signature", op.inner_signature() == ft(ins, [s, *other]))
    sym.check("block_num_out_is_successor_count", op.num_out == nv)
    if nv > 0:
        n = sym.int("succ", 0, nv - 1)
        sym.check("successor_i_gets_variant_i_then_others", op.nth_outputs(n) == [*rows[sym.concretize(n)], *other])
    off = sym.int("off", 0, None)
    sym.check("block_ports_are_control_flow", isinstance(op.port_kind(OutPort(Node(1), off)), tys.CFKind)
              and isinstance(op.port_kind(InPort(Node(1), 0)), tys.CFKind)
              and isinstance(ops.ExitBlock([]).port_kind(InPort(Node(1), 0)), tys.CFKind))


@lemma("C06", bounds="sum with 1..3 variants (quick) / 1..4 (thorough) of rows 0..2; tag symbolic")
def tag_signature():
    nv = sym.concretize(sym.int("variants", 1, P(3, 4)))
    rows = [row(f"v{j}_", 2) for j in range(nv)]
    s = tys.Sum(rows)
    t = sym.int("tag", 0, nv - 1)
    op = ops.Tag(t, s)
    sym.check("tag_maps_variant_row_to_sum", op.outer_signature() == ft(rows[sym.concretize(t)], [s]))
    sym.check("tag_num_out", op.num_out == 1)
    _check_ports(op, rows[sym.concretize(t)], [s], "tag")


@lemma("C06", bounds="rows 0..2 (quick) / 0..3 (thorough)")
def sugar_tags_are_tags():
    a, b = row("a"), row("b")
    some = ops.Some(*a)
    sym.check("some_is_tag1_of_option", some.outer_signature() == ops.Tag(1, tys.Sum([[], a])).outer_signature() and some.tag == 1)
    e = tys.Either(a, b)
    for cls, tag in ((ops.Left, 0), (ops.Right, 1), (ops.Continue, 0), (ops.Break, 1)):
        op = cls(e)
        sym.check("either_sugar_is_tag", op.outer_signature() == ops.Tag(tag, tys.Sum([a, b])).outer_signature() and op.tag == tag)
        sym.check("sugar_encodes_as_tag", op._to_serial(Node(0)).model_dump() == ops.Tag(tag, tys.Sum([a, b]))._to_serial(Node(0)).model_dump())


@lemma("C06", bounds="rows 0..2 (quick) / 0..3 (thorough)")
def tuple_ops_inverse():
    r = row("t")
    mk, un = ops.MakeTuple(r), ops.UnpackTuple(r)
    sym.check("make_tuple_sig", mk.outer_signature().input == r and mk.outer_signature().output == [tys.Tuple(*r)])
    sym.check("unpack_is_inverse", un.outer_signature().input == mk.outer_signature().output and un.outer_signature().output == mk.outer_signature().input)
    sym.check("tuple_num_out", mk.num_out == 1 and un.num_out == len(r))
    un2 = ops.UnpackTuple()
    un2._set_in_types([tys.Tuple(*r)])
    sym.check("unpack_infers_row", un2.types == r)
    _check_ports(mk, r, [tys.Tuple(*r)], "mk")
    _check_ports(un, [tys.Tuple(*r)], r, "un")


@lemma("C06", bounds="rows 0..2 (quick) / 0..3 (thorough)")
def call_indirect_signature():
    i, o = row("i"), row("o")
    f = ft(i, o)
    op = ops.CallIndirect(f)
    sym.check("callindirect_prepends_function", op.outer_signature() == ft([f, *i], o))
    sym.check("callindirect_num_out", op.num_out == len(o))
    _check_ports(op, [f, *i], o, "calli")


def _poly(tag):
    """Polymorphic signature + an instantiation with independent (possibly different) arity."""
    bi, bo = row(tag + "bi", 2), row(tag + "bo", 2)
    poly = sym.concretize(sym.bool(tag + "polymorphic"))
    if not poly:
        sig = tys.PolyFuncType([], ft(bi, bo))
        return sig, ft(bi, bo), None, []
    ii, io = row(tag + "ii", 2), row(tag + "io", 2)
    sig = tys.PolyFuncType([tys.ListParam(tys.TypeTypeParam(tys.TypeBound.Any))],
                           ft([tys.RowVariable(0, tys.TypeBound.Any), *bi], bo))
    inst = ft(ii, io)
    return sig, inst, inst, [tys.SequenceArg([])]


@lemma("C06", bounds="body rows and instantiation rows 0..2 each, independent lengths (row-polymorphic signatures); every port offset symbolic",
       outside="substitution of type arguments (hugr-py does not implement it; the instantiation is given)")
def call_signature():
    sig, inst, given, targs = _poly("")
    op = ops.Call(sig, given, targs)
    sym.predicate("instantiation_arity_differs", len(inst.input) != len(sig.body.input) or len(inst.output) != len(sig.body.output))
    sym.check("call_num_out_is_instantiated", op.num_out == len(inst.output))
    n = Node(3)
    k = op.port_kind(InPort(n, len(inst.input)))
    sym.check("call_static_port_is_function_kind", isinstance(k, tys.FunctionKind) and k.ty == sig)
    if inst.input:
        o = sym.int("in.off", 0, len(inst.input) - 1)
        k = op.port_kind(InPort(n, o))
        sym.check("call_value_input_types", isinstance(k, tys.ValueKind) and k.ty == inst.input[o])
    if inst.output:
        o = sym.int("out.off", 0, len(inst.output) - 1)
        k = op.port_kind(OutPort(n, o))
        sym.check("call_value_output_types", isinstance(k, tys.ValueKind) and k.ty == inst.output[o])
        h = Hugr()
        node = h.add_node(op)
        sym.check("call_hugr_port_type", h.port_type(node.out(o)) == inst.output[o])


@lemma("C06", bounds="as call_signature; order port in both directions")
def call_order_port():
    sig, inst, given, targs = _poly("")
    op = ops.Call(sig, given, targs)
    d = sym.concretize(sym.bool("incoming"))
    port = InPort(Node(3), -1) if d else OutPort(Node(3), -1)
    k = op.port_kind(port)
    sym.check("call_order_port_is_OrderKind", isinstance(k, tys.OrderKind))
    h = Hugr()
    node = h.add_node(op)
    hp = node.inp(-1) if d else node.out(-1)
    sym.check("call_order_port_has_no_type", h.port_type(hp) is None and isinstance(h.port_kind(hp), tys.OrderKind))


@lemma("C06", bounds="as call_signature")
def load_function_signature():
    sig, inst, given, targs = _poly("")
    op = ops.LoadFunc(sig, given, targs)
    sym.check("loadfunc_outputs_instantiated_function", op.outer_signature() == ft([], [inst]))
    sym.check("loadfunc_num_out", op.num_out == 1)
    k0 = op.port_kind(InPort(Node(1), 0))
    sym.check("loadfunc_static_port_is_function_kind", isinstance(k0, tys.FunctionKind) and k0.ty == sig)
    k1 = op.port_kind(OutPort(Node(1), 0))
    sym.check("loadfunc_value_out", isinstance(k1, tys.ValueKind) and k1.ty == inst)
    sym.check("loadfunc_port_type", op.port_type(OutPort(Node(1), 0)) == inst)
    sym.check("loadfunc_order_ports_are_OrderKind", isinstance(op.port_kind(OutPort(Node(1), -1)), tys.OrderKind) and isinstance(op.port_kind(InPort(Node(1), -1)), tys.OrderKind))


def _value(tag):
    kind = sym.concretize(sym.int(tag + ".kind", 0, 4))
    if kind == 0:
        return val.TRUE
    if kind == 1:
        return val.Tuple(val.TRUE, val.Unit)
    if kind == 2:
        return val.Some(val.FALSE)
    if kind == 3:
        from hugr.std.int import IntVal
        return IntVal(sym.concretize(sym.int(tag + ".v", 0, 3)), sym.concretize(sym.int(tag + ".w", 3, 5)))
    return val.Sum(1, tys.Sum([[tys.Qubit], [tys.Bool, tys.Bool]]), [val.TRUE, val.FALSE])


@lemma("C06", bounds="5 value shapes")
def const_and_loadconst_agree():
    v = _value("v")
    c = ops.Const(v)
    t = v.type_()
    k = c.port_kind(OutPort(Node(1), 0))
    sym.check("const_offers_value_type", isinstance(k, tys.ConstKind) and k.ty == t)
    lc = ops.LoadConst(t)
    ki, ko = lc.port_kind(InPort(Node(2), 0)), lc.port_kind(OutPort(Node(2), 0))
    sym.check("loadconst_static_in_matches_const", isinstance(ki, tys.ConstKind) and ki.ty == k.ty)
    sym.check("loadconst_value_out", isinstance(ko, tys.ValueKind) and ko.ty == t and lc.outer_signature() == ft([], [t]))
    sym.check("loadconst_port_type", lc.port_type(OutPort(Node(2), 0)) == t)
    sym.check("const_num_out", c.num_out == 1 and lc.num_out == 1)
    sym.check("loadconst_order_ports_are_OrderKind", isinstance(lc.port_kind(OutPort(Node(2), -1)), tys.OrderKind) and isinstance(lc.port_kind(InPort(Node(2), -1)), tys.OrderKind))


@lemma("C06", bounds="rows 0..2 (quick) / 0..3 (thorough)")
def leaf_dataflow_ops():
    i, o = row("i"), row("o")
    inp, out = ops.Input(i), ops.Output(o)
    sym.check("input_signature", inp.outer_signature() == ft([], i) and inp.num_out == len(i))
    sym.check("output_signature", out.outer_signature() == ft(o, []) and out.num_out == 0)
    cu = ops.Custom("op", ft(i, o), extension="e")
    sym.check("custom_signature", cu.outer_signature() == ft(i, o) and cu.num_out == len(o))
    _check_ports(inp, [], i, "input")
    _check_ports(out, o, [], "output")
    h = Hugr()
    node = h.add_node(cu)
    _check_ports(cu, i, o, "custom", h, node)
    if i:
        nop = ops.Noop(i[0])
        sym.check("noop_identity", nop.outer_signature().input == [i[0]] and nop.outer_signature().output == [i[0]] and nop.num_out == 1)
    case = ops.Case(i)
    _set_outputs_twice(case, [tys.Qubit, *o], o)
    sym.check("case_inner_signature", case.inner_signature() == ft(i, o))
    fd = ops.FuncDefn("f", i)
    _set_outputs_twice(fd, [tys.Qubit, *o], o)
    kf = fd.port_kind(OutPort(Node(1), 0))
    sym.check("funcdefn_offers_function", isinstance(kf, tys.FunctionKind) and kf.ty == tys.PolyFuncType([], ft(i, o)) and fd.inner_signature() == ft(i, o))


# ---------------------------------------------------------------------------
# the same rules over rows of UNBOUNDED length and arbitrary element types (z3 sequences)
# ---------------------------------------------------------------------------
from vrf.symx import symseq  # noqa: E402


def _port_in(op, row, tag, incoming):
    """port kind/type at a symbolic offset anywhere in `row` (any length)."""
    o = sym.int(f"{tag}.off", 0, None)
    sym.assume(o < len(row))
    port = InPort(Node(5), o) if incoming else OutPort(Node(5), o)
    k = op.port_kind(port)
    sym.check(f"{tag}:value_port_type_at_any_offset", sym.and_(isinstance(k, tys.ValueKind), k.ty == row[o]))
    if isinstance(op, ops.DataflowOp):
        sym.check(f"{tag}:port_type_is_payload", op.port_type(port) == row[o])
    ko = op.port_kind(InPort(Node(5), -1) if incoming else OutPort(Node(5), -1))
    sym.check(f"{tag}:order_port", isinstance(ko, tys.OrderKind))


@lemma("C06", unbounded="row lengths and element types (z3 sequences over an uninterpreted type sort); port offsets", bounds="none",
       outside="operations whose code iterates over the row (MakeTuple / UnpackTuple / to_model): covered by the bounded lemmas")
def container_signatures_unbounded_rows():
    i, o = symseq.make("i"), symseq.make("o")
    d = ops.DFG(i, o)
    sym.check("u:dfg_outer_is_body", sym.and_(d.outer_signature().input == i, d.outer_signature().output == o,
                                              d.inner_signature().input == i, d.inner_signature().output == o))
    sym.check("u:dfg_num_out", d.num_out == len(o))
    _port_in(d, i, "u.dfg.in", True)
    _port_in(d, o, "u.dfg.out", False)
    c = ops.CFG(i, o)
    sym.check("u:cfg_signature", sym.and_(c.outer_signature().input == i, c.outer_signature().output == o, c.num_out == len(o)))
    inp, out = ops.Input(i), ops.Output(o)
    sym.check("u:io_nodes", sym.and_(inp.outer_signature().output == i, inp.num_out == len(i), out.outer_signature().input == o))
    cu = ops.Custom("x", tys.FunctionType(i, o), extension="e")
    sym.check("u:custom", sym.and_(cu.outer_signature().input == i, cu.outer_signature().output == o, cu.num_out == len(o)))
    f = tys.FunctionType(i, o)
    ci = ops.CallIndirect(f)
    sym.check("u:callindirect_prepends_function", sym.and_(ci.outer_signature().input == [f] + i, ci.outer_signature().output == o, ci.num_out == len(o)))
    fl = f.flip()
    sym.check("u:flip_swaps_rows", sym.and_(fl.input == o, fl.output == i))


@lemma("C06", unbounded="just-inputs / just-outputs / rest rows: any length, any element types; port offsets", bounds="none")
def tailloop_signature_unbounded_rows():
    ji, jo, rest = symseq.make("ji"), symseq.make("jo"), symseq.make("rest")
    op = ops.TailLoop(ji, rest, jo)
    sym.check("u:loop_outer_in", op.outer_signature().input == ji + rest)
    sym.check("u:loop_outer_out", op.outer_signature().output == jo + rest)
    sym.check("u:loop_body_in", op.inner_signature().input == ji + rest)
    sym.check("u:loop_body_out_is_sum_then_rest", op.inner_signature().output == [tys.Sum([ji, jo])] + rest)
    sym.check("u:loop_num_out", op.num_out == len(jo) + len(rest))
    _port_in(op, ji + rest, "u.loop.in", True)
    _port_in(op, jo + rest, "u.loop.out", False)


@lemma("C06", unbounded="variant rows, other inputs / outputs: any length, any element types; port offsets",
       bounds="2..3 variants (the variant count is the length of a Python list the code indexes); variant index symbolic")
def conditional_block_tag_unbounded_rows():
    nv = sym.concretize(sym.int("variants", 2, 3))
    rows = [symseq.make(f"v{j}") for j in range(nv)]
    other, outs = symseq.make("other"), symseq.make("outs")
    s = tys.Sum(rows)
    n = sym.int("n", 0, nv - 1)
    cond = ops.Conditional(s, other, outs)
    sym.check("u:conditional_inputs", sym.and_(cond.outer_signature().input == [s] + other, cond.outer_signature().output == outs, cond.num_out == len(outs)))
    sym.check("u:case_n_inputs", cond.nth_inputs(n) == rows[sym.concretize(n)] + other)
    blk = ops.DataflowBlock(other, s, outs)
    sym.check("u:block_body", sym.and_(blk.inner_signature().input == other, blk.inner_signature().output == [s] + outs, blk.num_out == nv))
    sym.check("u:successor_n_outputs", blk.nth_outputs(n) == rows[sym.concretize(n)] + outs)
    tag = ops.Tag(n, s)
    sym.check("u:tag_signature", sym.and_(tag.outer_signature().input == rows[sym.concretize(n)], tag.outer_signature().output == [s]))
    _port_in(cond, [s] + other, "u.cond.in", True)


@lemma("C06", unbounded="body rows and instantiation rows of independent, arbitrary lengths; port offsets", bounds="none")
def call_and_load_function_unbounded_rows():
    bi, bo, ii, io = symseq.make("bi"), symseq.make("bo"), symseq.make("ii"), symseq.make("io")
    sig = tys.PolyFuncType([tys.ListParam(tys.TypeTypeParam(tys.TypeBound.Any))], tys.FunctionType(bi, bo))
    inst = tys.FunctionType(ii, io)
    call = ops.Call(sig, inst, [tys.SequenceArg([])])
    sym.check("u:call_num_out", call.num_out == len(io))
    k = call.port_kind(InPort(Node(2), len(ii)))
    sym.check("u:call_static_port_kind", isinstance(k, tys.FunctionKind) and k.ty is sig)
    _port_in(call, ii, "u.call.in", True)
    _port_in(call, io, "u.call.out", False)
    lf = ops.LoadFunc(sig, inst, [tys.SequenceArg([])])
    sym.check("u:loadfunc", sym.and_(lf.outer_signature().input == [], lf.outer_signature().output == [inst], lf.num_out == 1))
