"""C11 — extension resolution is conservative, idempotent and invisible on the wire."""
from hugr import ext, ops, tys
from hugr.hugr import Hugr
from hugr.hugr.node_port import InPort, Node, OutPort
from hugr.tys import TypeBound

from vrf.lemma import P, lemma
from vrf.oracle.dump import deep_eq, dump
from vrf.symx import sym

B = tys.Bool
NAMES = [("my.ext", "T"), ("my.ext", "U"), ("other.ext", "T")]


def registry(op_sig_choice=False):
    """Registry with symbolic membership: 'my.ext' present or not, with any subset of {type T, type U, op Op}."""
    reg = ext.ExtensionRegistry()
    have = {}
    # history: the registry is consulted for the extensions BEFORE they are added (failed lookups must leave nothing behind)
    for name in ("my.ext", "other.ext", "seq.ext"):
        try:
            reg.get_extension(name)
        except ext.ExtensionRegistry.ExtensionNotFound:
            pass
    if sym.concretize(sym.bool("reg.my_ext")):
        e = ext.Extension("my.ext", ext.Version(0, 1, 0))
        # quick: none / both / only T (an extension that is present but lacks one of the named types); thorough: any subset
        which_types = sym.concretize(sym.int("reg.types", 0, 2)) if P(True, False) else None
        for t in ("T", "U"):
            if (which_types == 1 or (which_types == 2 and t == "T")) if which_types is not None else sym.concretize(sym.bool(f"reg.type_{t}")):
                e.add_type_def(ext.TypeDef(t, "described", [tys.TypeTypeParam(TypeBound.Any), tys.TypeTypeParam(TypeBound.Any)], ext.FromParamsBound([0, 1])))
                have[("my.ext", t)] = True
        if sym.concretize(sym.bool("reg.op")):
            # the held definition is binary (no static signature) or - op lemmas only - monomorphic with a signature of its own,
            # which need not be the one the document records (e.g. another version of the extension)
            if op_sig_choice and sym.concretize(sym.bool("reg.op_has_monomorphic_signature")):
                sig = ext.OpDefSig(tys.FunctionType([B, B, B], [B, B]))
            else:
                sig = ext.OpDefSig(None, True)
            e.add_op_def(ext.OpDef("Op", sig, "definition's description"))
            have[("my.ext", "Op")] = True
        reg.add_extension(e)
    if P(False, True) and sym.concretize(sym.bool("reg.unrelated")):
        reg.add_extension(ext.Extension("unrelated", ext.Version(0, 1, 0)))
    return reg, have


def opaque(tag, depth):
    """Opaque type naming one of NAMES, with one type argument (itself possibly opaque, nested)."""
    en, tn = NAMES[sym.concretize(sym.int(f"{tag}.name", 0, len(NAMES) - 1))]
    inner = expr(tag + ".arg", depth - 1) if depth > 0 else [tys.Qubit, tys.Bool][sym.concretize(sym.int(f"{tag}.leaf", 0, 1))]
    # in a document the declared bound of an opaque type is the one its definition computes (here: from parameter 0)
    return tys.Opaque(tn, inner.type_bound(), [tys.TypeTypeArg(inner), tys.TypeTypeArg(tys.Bool)], en)


def expr(tag, depth, k=None):
    if k is None:
        k = sym.concretize(sym.int(f"{tag}.kind", 0, 7 if depth > 0 else 1))
    if k == 0:
        return tys.Bool
    if k == 1:
        return opaque(tag, depth)
    if k == 2:
        return tys.Sum([[B], [expr(tag + ".s", depth - 1)]])
    if k == 3:
        # (next to a general sum whose rows are all empty: it must stay in its general form)
        return tys.Tuple(tys.Sum([[], []]), tys.Qubit, expr(tag + ".t", depth - 1))
    if k == 4:
        return tys.FunctionType([expr(tag + ".i", depth - 1)], [B])
    if k == 5:
        return tys.FunctionType([], [expr(tag + ".o", depth - 1)])
    if k == 7:   # a sequence argument nested inside a sequence argument
        return tys.Opaque("Seq2", TypeBound.Any, [tys.SequenceArg([tys.StringArg("s"), tys.SequenceArg([tys.SequenceArg([tys.TypeTypeArg(expr(tag + ".qq", depth - 1))])])])], "seq.ext")
    return tys.Opaque("Seq", TypeBound.Any, [tys.SequenceArg([tys.TypeTypeArg(expr(tag + ".q", depth - 1)), tys.BoundedNatArg(3)])], "seq.ext")


def leftovers(t, have):
    """Opaque types that name a definition held by the registry, anywhere in the expression."""
    out = []
    if isinstance(t, tys.Opaque):
        if (t.extension, t.id) in have:
            out.append(t)
        for a in t.args:
            out += leftovers(a, have)
    elif isinstance(t, tys.ExtType):
        for a in t.args:
            out += leftovers(a, have)
    elif isinstance(t, tys.Sum):
        for r in t.variant_rows:
            for x in r:
                out += leftovers(x, have)
    elif isinstance(t, tys.FunctionType):
        for x in t.input + t.output:
            out += leftovers(x, have)
    elif isinstance(t, tys.PolyFuncType):
        out += leftovers(t.body, have)
    elif isinstance(t, tys.TypeTypeArg):
        out += leftovers(t.ty, have)
    elif isinstance(t, tys.SequenceArg):
        for x in t.elems:
            out += leftovers(x, have)
    return out


def wrongly_resolved(t, have):
    """ExtTypes whose definition the registry does NOT hold (must never be invented)."""
    out = []
    if isinstance(t, tys.ExtType):
        if (t.type_def.get_extension().name, t.type_def.name) not in have:
            out.append(t)
        for a in t.args:
            out += wrongly_resolved(a, have)
    elif isinstance(t, tys.Opaque):
        for a in t.args:
            out += wrongly_resolved(a, have)
    elif isinstance(t, tys.Sum):
        for r in t.variant_rows:
            for x in r:
                out += wrongly_resolved(x, have)
    elif isinstance(t, tys.FunctionType):
        for x in t.input + t.output:
            out += wrongly_resolved(x, have)
    elif isinstance(t, tys.TypeTypeArg):
        out += wrongly_resolved(t.ty, have)
    elif isinstance(t, tys.SequenceArg):
        for x in t.elems:
            out += wrongly_resolved(x, have)
    return out


@lemma("C11", params=[(k,) for k in range(8)], bounds="one task per outermost expression kind; type expressions of depth <= 2 over Sum, Tuple, FunctionType (inputs and outputs), opaque types with type "
                     "arguments and sequence arguments; opaque leaves name one of 3 (extension, type) pairs; registries: my.ext present or not with any "
                     "subset of its two type definitions (quick: none, both, or only T), plus (thorough) an unrelated extension or not",
       outside="deeper expressions; opaque types whose declared bound contradicts their definition (not a loadable document)",
       opts={"max_paths": 400000, "timeout_s": 3000})
def type_resolution(kind):
    reg, have = registry()
    t = expr("t", 2, kind)
    sym.predicate("opaque_nested_in_type_argument_of_opaque", isinstance(t, tys.Opaque) and bool(leftovers(t.args[0], have)))
    r = t.resolve(reg)
    sym.check("resolves_every_held_definition_at_every_depth", leftovers(r, have) == [])
    sym.check("never_invents_a_definition", wrongly_resolved(r, have) == [])
    sym.check("untouched_when_nothing_to_resolve", (leftovers(t, have) != []) or r == t)
    sym.check("wire_form_unchanged", deep_eq(dump(r._to_serial_root()), dump(t._to_serial_root())))
    sym.check("bound_unchanged", r.type_bound() == t.type_bound())
    sym.check("model_unchanged", r.to_model() == t.to_model())
    r2 = r.resolve(reg)
    sym.check("idempotent", r2 == r and deep_eq(dump(r2._to_serial_root()), dump(r._to_serial_root())))
    sym.check("input_not_mutated", deep_eq(dump(t._to_serial_root()), dump(t._to_serial_root())) and leftovers(t, have) == leftovers(t, have))


@lemma("C11", params=[(w, k) for w in range(3) for k in range(8)],
       bounds="one task per operation name my.ext.Op / my.ext.Missing / other.ext.Op and outermost kind of the output type; signature output of depth <= 1, input Bool and type argument an opaque leaf "
              "; registries as in type_resolution (thorough: any subset of the type definitions, an unrelated extension or not)",
       opts={"max_paths": 400000, "timeout_s": 3000, "optional_clauses": ["op_resolution_idempotent", "resolved_op_is_the_registry_definition", "type_args_resolved"]})
def op_resolution(which, out_kind):
    reg, have = registry(op_sig_choice=(which == 0))
    en, on = [("my.ext", "Op"), ("my.ext", "Missing"), ("other.ext", "Op")][which]
    ti, to = tys.Bool, expr("out", 1, out_kind)
    ta = opaque("arg", 0)
    cu = ops.Custom(on, tys.FunctionType([ti], [to]), "free text", en, [tys.TypeTypeArg(ta), tys.BoundedNatArg(2)])
    r = cu.resolve(reg)
    held = (en, on) in have
    sym.check("op_resolved_iff_registry_holds_it", isinstance(r, ops.ExtOp) == held and (held or r is cu))
    sig = r.outer_signature()
    sym.check("signature_types_resolved", leftovers(sig, have) == [] if held else sig == cu.signature)
    sym.check("no_invented_definitions", wrongly_resolved(sig, have) == [])
    if held:
        sym.check("type_args_resolved", sum((leftovers(a, have) for a in r.args), []) == [] and sum((wrongly_resolved(a, have) for a in r.args), []) == [])
        sym.check("resolved_op_is_the_registry_definition", r.op_def() is reg.get_extension(en).get_op(on))
    d1, d2 = dump(r._to_serial(Node(0))), dump(cu._to_serial(Node(0)))
    d1.pop("description", None)
    d2.pop("description", None)
    sym.check("op_wire_form_unchanged_except_description", deep_eq(d1, d2))
    sym.check("op_signature_and_ports_unchanged", sym.and_(
        deep_eq(dump(sig._to_serial_root()), dump(cu.signature._to_serial_root())), r.num_out == cu.num_out,
        deep_eq(dump(r.port_type(OutPort(Node(0), 0))._to_serial_root()), dump(cu.port_type(OutPort(Node(0), 0))._to_serial_root())),
        r.port_type(InPort(Node(0), 0)).type_bound() == cu.port_type(InPort(Node(0), 0)).type_bound()))
    if isinstance(r, ops.ExtOp):
        back = r.to_custom_op().resolve(reg)
        sym.check("op_resolution_idempotent", isinstance(back, ops.ExtOp) and back.op_def() is r.op_def() and back.outer_signature() == sig and back.args == r.args)


@lemma("C11", bounds="a 6-node HUGR with two custom operations (one held by the registry or not), a non-custom extension op and core ops; registries as above")
def hugr_resolution_touches_only_custom_nodes():
    import json
    from hugr.build.dfg import Dfg
    reg, have = registry(op_sig_choice=True)
    d = Dfg(tys.Bool)
    opq = tys.Opaque("T", TypeBound.Any, [tys.TypeTypeArg(tys.Qubit), tys.TypeTypeArg(tys.Bool)], "my.ext")
    a = d.add_op(ops.Custom("Op", tys.FunctionType([tys.Bool], [opq]), "x", "my.ext", []), d.inputs()[0])
    b = d.add_op(ops.Custom("Nope", tys.FunctionType([opq], [opq]), "y", "nowhere", []), a[0])
    c = d.add_op(ops.Noop(), b[0])
    # the same custom operation once more, instantiated differently (other signature and type arguments)
    a2 = d.add_op(ops.Custom("Op", tys.FunctionType([tys.Bool, tys.Bool], [tys.Bool]), "x2", "my.ext", [tys.BoundedNatArg(6)]), d.inputs()[0], d.inputs()[0])
    d.set_outputs(c[0])
    sigs_before = {n.idx: (d.hugr[n].op.outer_signature(), list(getattr(d.hugr[n].op, "args", []))) for n in d.hugr if isinstance(d.hugr[n].op, ops.Custom)}
    before = json.loads(d.hugr.to_json())
    ops_before = {n.idx: d.hugr[n].op for n in d.hugr}
    model_before = None
    m_err = None
    h = d.hugr.resolve_extensions(reg)
    sym.check("returns_same_hugr", h is d.hugr)
    for n in h:
        op = h[n].op
        if isinstance(ops_before[n.idx], ops.Custom):
            want_ext = (ops_before[n.idx].extension, ops_before[n.idx].op_name) in have
            sym.check("custom_node_resolved_iff_held", isinstance(op, ops.ExtOp) == want_ext)
        else:
            sym.check("non_custom_nodes_untouched", op is ops_before[n.idx])
    for n in h:
        if n.idx in sigs_before:
            op2 = h[n].op
            same = dump(op2.outer_signature()._to_serial_root()) == dump(sigs_before[n.idx][0]._to_serial_root())
            args2 = op2.args if hasattr(op2, "args") else []
            sym.check("each_resolved_node_keeps_its_own_signature_and_args", same and [dump(x._to_serial_root()) for x in args2] == [dump(x._to_serial_root()) for x in sigs_before[n.idx][1]])
    after = json.loads(h.to_json())
    for doc in (before, after):
        for nd in doc["nodes"]:
            nd.pop("description", None)
    sym.check("document_unchanged_except_descriptions", before == after)
    again = json.loads(h.resolve_extensions(reg).to_json())
    for nd in again["nodes"]:
        nd.pop("description", None)
    sym.check("resolving_twice_equals_once", again == after)
