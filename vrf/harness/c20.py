"""C20 — rendering draws every node, port and link of the HUGR exactly once.

The graphviz layer is the real `graphviz.Digraph` (pure Python assembly of DOT text); the
DOT source is parsed back (oracle/dot.py) and compared with the HUGR.  The solver's role here is
the choice space (program template, store shape, render configuration); stated as such."""
from hugr import ops, tys
from hugr.hugr.node_port import Direction
from hugr.hugr.render import PALETTE, DotRenderer, RenderConfig
from hugr.tys import ValueKind

from vrf.harness import programs, store
from vrf.harness.common import structure
from vrf.lemma import P, lemma, native
from vrf.oracle import dot
from vrf.symx import sym


@native
def _display_name(op, qualify):
    if isinstance(op, ops.AsExtOp) and not qualify:
        return op.op_def().name
    return op.name()


@native
def _names_match(want, drawn):
    """The drawn label carries the display name (as written, or HTML-escaped for the table label); other decoration is allowed."""
    import html
    return any(w in drawn for w in (want, html.escape(want), html.escape(want, quote=False), want.replace("<", "&lt;").replace(">", "&gt;")))


def check_drawing(h, cfg, tag):
    before = structure(h)
    g = DotRenderer(cfg).render(h)
    src = g.source
    nodes, clusters, edges = dot.parse(src)
    sym.check(f"{tag}:store_unchanged", structure(h) == before)
    idxs = [n.idx for n in h]
    sym.check(f"{tag}:one_node_statement_per_node", sorted(nodes) == idxs and all(nodes[i]["count"] == 1 for i in idxs))
    ok_name, ok_ports, ok_cluster = True, True, True
    for n in h:
        rec = nodes.get(n.idx)
        if rec is None:
            continue
        want = _display_name(h[n].op, cfg.qualify_op_name)
        ok_name = ok_name and rec["name"] is not None and _names_match(want, rec["name"])
        ok_ports = ok_ports and rec["in"] == [str(i) for i in range(h.num_in_ports(n))] and rec["out"] == [str(i) for i in range(h.num_out_ports(n))]
        has_kids = len(h.children(n)) > 0
        par = h[n].parent
        want_cluster = n.idx if has_kids else (par.idx if par is not None else None)
        ok_cluster = ok_cluster and rec["cluster"] == want_cluster
    sym.check(f"{tag}:label_carries_display_name", ok_name)
    sym.check(f"{tag}:one_cell_per_counted_port", ok_ports)
    sym.check(f"{tag}:node_sits_in_the_right_cluster", ok_cluster)
    want_clusters = {n.idx: (h[n].parent.idx if h[n].parent is not None else None) for n in h if len(h.children(n)) > 0}
    sym.check(f"{tag}:one_cluster_per_parent_nested_as_hierarchy", clusters == want_clusters)
    got = sorted((e[0], e[1], e[2], e[3]) for e in edges)
    want = sorted((s.node.idx, str(s.offset), t.node.idx, str(t.offset)) for s, t in h.links())
    sym.check(f"{tag}:one_edge_statement_per_link_with_right_endpoints", got == want)
    ok_lab = True
    for (si, so, ti, to, label, attrs) in edges:
        from hugr.hugr.node_port import Node, OutPort
        kind = h.port_kind(OutPort(Node(si), int(so)))
        if isinstance(kind, ValueKind):
            ok_lab = ok_lab and label == str(kind.ty)
        else:
            ok_lab = ok_lab and label == ""
    sym.check(f"{tag}:value_edges_labelled_by_type", ok_lab)
    # every linked port has a cell to attach to (order ports excepted)
    ok_att = True
    for (si, so, ti, to, label, attrs) in edges:
        if so not in ("-1", "None"):
            ok_att = ok_att and so in nodes[si]["out"]
        if to not in ("-1", "None"):
            ok_att = ok_att and to in nodes[ti]["in"]
    sym.check(f"{tag}:edge_endpoints_are_drawn_cells", ok_att)
    return src


def _configs():
    pal = ["default", "nb", "zx"][sym.concretize(sym.int("palette", 0, 2))]
    return RenderConfig(PALETTE[pal], sym.concretize(sym.bool("qualify_op_name")))


@lemma("C20", params=lambda: [(i,) for i in range(len(programs.MODULES))],
       bounds="the 8 builder program templates (order / constant / function / control-flow edges, metadata, nested containers, tracked circuit, "
              "non-ASCII names), one task each; all 3 palettes x both name-qualification settings",
       outside="other programs")
def drawing_of_builder_programs(k):
    h = programs.MODULES[k]().hugr
    cfg = _configs()
    src = check_drawing(h, cfg, "prog")
    base = DotRenderer(RenderConfig()).render(h).source
    same_names = not cfg.qualify_op_name
    if same_names:
        sym.check("prog:configs_differ_only_in_colours", dot.normalise_colours(src, None) == dot.normalise_colours(base, None))
    else:
        n1, c1, e1 = dot.parse(src)
        n2, c2, e2 = dot.parse(base)
        sym.check("prog:qualification_changes_only_op_names", c1 == c2 and sorted(x[:5] for x in e1) == sorted(x[:5] for x in e2)
                  and all(n1[i]["in"] == n2[i]["in"] and n1[i]["out"] == n2[i]["out"] and n1[i]["cluster"] == n2[i]["cluster"] for i in n1))


@lemma("C20", params=[(0,), (1,), (2,), (3,)],
       bounds="one task per source node of the first link (0: thorough only, first link absent); stores of root + 3 nodes with requested output counts 0..2 (node 1 symbolic)"
                     " and one link plus an optional duplicate (quick) / <= 2 optional links plus an optional duplicate of the first (thorough) with endpoints / offsets (-1..1) chosen by the "
                     "solver (multi-links, order links, self-loops) on operations with 2 inputs and 2 outputs; metadata on a node or not; default palette",
       outside="larger stores", opts={"max_paths": 400000, "timeout_s": 1500})
def drawing_of_store_states(first_src):
    N = 4
    links = store.sym_links(P(1, 2), N, max_off=1)
    if first_src == 0:
        sym.assume(sym.not_(links[0].p))       # no first link (quick: a store without links)
    else:
        sym.assume(sym.and_(links[0].p, links[0].a == first_src))
    for l in links:
        for f in ("p", "a", "o", "b", "q"):
            setattr(l, f, sym.concretize(getattr(l, f)))
    l0 = links[0]
    if l0.p:
        links.append(store.Link(sym.concretize(sym.bool("dup")), l0.a, l0.o, l0.b, l0.q))   # optional duplicate: multi-link
    req = [None, sym.concretize(sym.int("req1", 0, 2)), 0, 2]
    B2 = [tys.Bool, tys.Qubit]
    ops_list = [None, programs.cust("x<y>", B2, B2), programs.cust("y&z", B2, B2), programs.cust("z", B2, B2)]
    h, nodes = store.make_store(N, links, requested=req, ops_list=ops_list)
    if sym.concretize(sym.bool("meta")):
        h[nodes[1]].metadata["k"] = "v"
    check_drawing(h, RenderConfig(), "store")


@lemma("C20", bounds="HUGRs whose ROOT is a dataflow container built by a standalone builder (Dfg / Cfg / Conditional / TailLoop) with 0..2 value inputs "
                     "(order edge, multi-link, nested cases / blocks inside); default palette", outside="other rooted HUGRs")
def drawing_of_container_rooted_hugrs():
    from vrf.harness.c08 import _inner
    kind = sym.concretize(sym.int("root_kind", 0, 3))
    n_in = sym.concretize(sym.int("n_in", 1 if kind == 2 else 0, 2))
    inner, n_out = _inner(kind, n_in)
    check_drawing(inner.hugr, RenderConfig(), "root")
    sym.check("root:root_has_its_output_cells", inner.hugr.num_out_ports(inner.hugr.root) == n_out)
