"""C14 — constants inhabit the type they report."""
from hugr import ops, tys, val
from hugr.build.dfg import Dfg
from hugr.hugr.node_port import InPort, Node, OutPort
from hugr.std.collections.array import Array, ArrayVal
from hugr.std.collections.list import List, ListVal
from hugr.std.collections.static_array import StaticArray, StaticArrayVal
from hugr.std.float import FLOAT_T, FloatVal
from hugr.std.int import IntVal, int_t
from hugr.std.prelude import STRING_T, StringVal

from vrf.lemma import P, lemma
from vrf.oracle.inhabits import inhabits, type_equal
from vrf.symx import sym

_n = [0]


def _f(t):
    _n[0] += 1
    return f"{t}#{_n[0]}"


EXPECTED: list = []


def leaf(tag):
    k = sym.concretize(sym.int(_f(tag + ".leaf"), 0, 7))
    if k == 6:
        return val.None_(tys.Bool)       # option-typed leaves: options of options arise one level up
    if k == 7:
        return val.Some(val.FALSE)
    if k == 0:
        return val.bool_value(sym.concretize(sym.bool(_f(tag + ".b"))))
    if k == 1:
        return val.Unit
    if k == 2:
        n = sym.concretize(sym.int(_f(tag + ".size"), 1, 3))
        return val.UnitSum(sym.concretize(sym.int(_f(tag + ".tag"), 0, n - 1)), n)
    if k == 3:
        return IntVal(sym.int(_f(tag + ".v"), 0, None), [0, 5, 6][sym.concretize(sym.int(_f(tag + ".w"), 0, 2))])
    if k == 4:
        return FloatVal(0.5)
    return StringVal("s✓")


def value(tag, depth, k=None, maxn=2):
    """A value of nesting depth <= depth. At depth 2 (thorough) the first component may itself be any depth-1 value (with <= 1 component),
    the second is a leaf - the full product of two arbitrary depth-1 components is ~50k values per kind."""
    if k is None:
        k = sym.concretize(sym.int(_f(tag + ".kind"), 0, 9 if depth > 0 else 0))
    if k == 0:
        return leaf(tag)
    vs = []
    if k <= 5:
        for j in range(sym.concretize(sym.int(_f(tag + ".n"), 0, maxn))):
            vs.append(value(f"{tag}.{j}", depth - 1, None, 1) if (depth < 2 or j == 0) else leaf(f"{tag}.{j}"))
    if k <= 5:
        ts = [x.type_() for x in vs]
        if k == 1:
            v, want = val.Tuple(*vs), tys.Sum([ts])
        elif k == 2:
            v, want = val.Some(*vs), tys.Sum([[], ts])
        elif k == 3:
            v, want = val.None_(*ts), tys.Sum([[], ts])
        elif k == 4:
            v, want = val.Left(iter(vs), [tys.Qubit, tys.Bool]), tys.Sum([ts, [tys.Qubit, tys.Bool]])     # any Iterable is accepted, also a one-shot iterator
        else:
            v, want = val.Right([tys.Bool], (x for x in vs)), tys.Sum([[tys.Bool], ts])
        EXPECTED.append((v, want))    # the sum type the helper is documented to build from what it was given
        return v
    el = leaf(tag + ".el")
    m = sym.concretize(sym.int(_f(tag + ".len"), 0, 2))
    elems = [el] * m
    if k == 6:
        return ArrayVal(elems, el.type_())
    if k == 7:
        return ListVal(elems, el.type_())
    if k == 8:
        return StaticArrayVal(elems, el.type_(), "name")
    d = Dfg(tys.Bool)
    d.set_outputs(d.inputs()[0], d.load(el))
    return val.Function(d.hugr)


def _serial_types_ok(v):
    """In the encoded value, every sum node's `typ` is the encoding of the type that value reports (recursively)."""
    from vrf.oracle.dump import deep_eq, dump
    if isinstance(v, val.Sum):
        d = dump(v._to_serial())
        ok = True
        if "typ" in d:   # (tuples are written without their type)
            ok = deep_eq(d["typ"], dump(v.type_()._to_serial()))
        for x in v.vals:
            ok = sym.and_(ok, _serial_types_ok(x))
        return ok
    if isinstance(v, val.Extension) or hasattr(v, "to_value"):
        e = v.to_value() if hasattr(v, "to_value") else v
        d = dump(e._to_serial())
        ok = deep_eq(d["typ"], dump(v.type_()._to_serial_root()))
        inner = getattr(v, "v", None)
        if isinstance(inner, list):
            for x in inner:
                ok = sym.and_(ok, _serial_types_ok(x))
        return ok
    return True


@lemma("C14", params=[(k,) for k in range(10)], unbounded="integer payloads", bounds="one task per outermost value kind; value expressions of nesting depth <= 1 (quick) / 2 (thorough: first field any depth-1 value with <= 1 field, second field a leaf) with <= 2 fields per level over "
                     "bool / unit / unit-sum / int (widths 0..6) / float / string / option-typed leaves, Tuple / Some / None / Left / Right helpers, arrays, lists and "
                     "static arrays of 0..2 elements, function-valued constants", outside="deeper nesting; raw Sum(tag, typ, vals) with inconsistent arguments",
       opts={"max_paths": 400000, "timeout_s": 3000, "optional_clauses": ["helper_tag", "helper_builds_matching_sum_type"]})
def helper_values_inhabit_their_type(kind):
    _n[0] = 0
    del EXPECTED[:]
    v = value("v", P(1, 2), kind)
    sym.check("value_inhabits_reported_type", inhabits(v) == [])
    sym.check("helper_reports_the_sum_of_the_types_it_was_given", all(type_equal(x.type_(), want) for x, want in EXPECTED))
    t = v.type_()
    if isinstance(v, val.Sum):
        sym.check("helper_tag", (isinstance(v, val.Some | val.Right) and v.tag == 1) or (isinstance(v, val.None_ | val.Left | val.Tuple) and v.tag == 0)
                  or isinstance(v, val.UnitSum))
        sym.check("helper_builds_matching_sum_type", len(t.variant_rows[v.tag]) == len(v.vals)
                  and all(type_equal(a.type_(), b) for a, b in zip(v.vals, t.variant_rows[v.tag])))
    c = ops.Const(v)
    k = c.port_kind(OutPort(Node(0), 0))
    sym.check("const_offers_reported_type", isinstance(k, tys.ConstKind) and type_equal(k.ty, t))
    d = Dfg()
    n = d.load(v)
    lop = d.hugr[n].op
    sym.check("load_produces_value_of_that_type", isinstance(lop, ops.LoadConst) and type_equal(lop.type_, t)
              and type_equal(d.hugr.port_type(n.out(0)), t) and type_equal(lop.port_kind(InPort(n, 0)).ty, t))
    sym.check("serialized_form_carries_the_reported_type_at_every_level", _serial_types_ok(v))


@lemma("C14", unbounded="the integer payload", bounds="all widths 0..6 (symbolic); array / list / static-array constants of 0..3 elements over 7 element kinds (bool, int, tuple, string, array, list, empty array of a linear type)")
def std_constants_report_std_types():
    _n[0] = 0
    w = sym.concretize(sym.int("width", 0, 6))
    x = sym.int("value", 0, None)
    iv = IntVal(x, w)
    e = iv.to_value()
    sym.check("int_constant_type_is_int_of_width", e.typ.args[0].n == w and e.typ.type_def.name == "int" and type_equal(iv.type_(), int_t(w)))
    sym.check("int_constant_payload", e.val["log_width"] == w and sym.concretize(e.val["value"] == x) and e.name == "ConstInt")
    sym.check("int_constant_names_extension", e.extensions == ["arithmetic.int.types"])
    fv = FloatVal(1.5).to_value()
    sym.check("float_constant", type_equal(fv.typ, FLOAT_T) and fv.extensions == ["arithmetic.float.types"] and fv.val == {"value": 1.5})
    sv = StringVal("ab").to_value()
    sym.check("string_constant", type_equal(sv.typ, STRING_T) and sv.extensions == ["prelude"] and sv.val == {"value": "ab"})
    # element kinds, including collections nested directly in collections
    kinds = [val.TRUE, IntVal(3, 4), val.Tuple(val.TRUE, val.Unit), StringVal("x"),
             ArrayVal([val.TRUE, val.FALSE], tys.Bool), ListVal([IntVal(1, 3)], int_t(3)), ArrayVal([], tys.Qubit)]
    el = kinds[sym.concretize(sym.int("elem", 0, len(kinds) - 1))]
    m = sym.concretize(sym.int("len", 0, 3))
    elems = [el] * m
    a = ArrayVal(elems, el.type_())
    av = a.to_value()
    sym.check("array_constant", type_equal(a.type_(), Array(el.type_(), m)) and av.extensions == ["collections.array"]
              and len(av.val["values"]) == m and av.val["typ"] == el.type_()._to_serial_root()
              and all(x == el._to_serial_root() for x in av.val["values"]))
    li = ListVal(elems, el.type_())
    lv = li.to_value()
    sym.check("list_constant", type_equal(li.type_(), List(el.type_())) and lv.extensions == ["collections.list"]
              and len(lv.val["values"]) == m and lv.val["typ"] == el.type_()._to_serial_root())
    if el.type_().type_bound() == tys.TypeBound.Copyable:   # (static arrays rightly refuse linear element types: C07)
        sa = StaticArrayVal(elems, el.type_(), "nm")
        sv2 = sa.to_value()
        sym.check("static_array_constant", type_equal(sa.type_(), StaticArray(el.type_())) and sv2.extensions == ["collections.static_array"]
                  and len(sv2.val["value"]["values"]) == m and sv2.val["value"]["typ"] == el.type_()._to_serial_root() and sv2.val["name"] == "nm")


@lemma("C14", bounds="function-valued constants over 3 body shapes")
def function_constant_has_body_signature():
    k = sym.concretize(sym.int("body", 0, 2))
    rows = [([tys.Bool], 1), ([tys.Qubit, tys.Bool], 2), ([], 0)][k]
    d = Dfg(*rows[0])
    d.set_outputs(*d.inputs())
    delta = ["arithmetic.int"] if sym.concretize(sym.bool("body_has_extension_delta")) else []
    d.parent_op._extension_delta = list(delta)
    f = val.Function(d.hugr)
    sym.check("function_constant_signature", f.type_() == tys.FunctionType(rows[0], rows[0], delta) and inhabits(f) == []
              and f.type_() == d.hugr.root_op().inner_signature())
