"""Symbolic pre-states of the Hugr graph store.

A state is *defined* by N nodes and E individually optional, symbolic links listed in insertion
order.  These are exactly the link tables reachable with <= E live links (sub-offsets are the
insertion ranks on each port), so no representation invariant has to be guessed and every state
can be rebuilt through the public API:

* symbolic mode: nodes are added through `Hugr.add_node`; the link table (`_links.fwd/.bck`) is
  replaced by two SymDicts seeded with the E conditional entries; port counters are set to the
  values `add_link` would have produced (max of requested count and highest offset in use + 1).
* concrete (replay) mode: the same nodes, then `Hugr.add_link` for each present link in order.

This module is the only place that touches private fields of Hugr.
"""
import z3

from hugr import ops, tys
from hugr.hugr import Hugr
from hugr.hugr.node_port import InPort, Node, OutPort, _SubPort
from hugr.utils import BiMap

from vrf.symx import sym
from vrf.symx.symdict import SymDict
from vrf.symx.values import to_z3_bool, to_z3_int, wrap_int


class SubPortCodec:
    arity = 3

    def __init__(self, port_cls):
        self.port_cls = port_cls

    def enc(self, obj):
        if not isinstance(obj, _SubPort) or type(obj.port) is not self.port_cls:
            return None
        return (to_z3_int(obj.port.node.idx), to_z3_int(obj.port.offset), to_z3_int(obj.sub_offset))

    def dec(self, t):
        return _SubPort(self.port_cls(Node(wrap_int(t[0])), wrap_int(t[1])), wrap_int(t[2]))


def node_op(i):
    return ops.Custom(f"n{i}", tys.FunctionType.empty(), extension="store")


class Link:
    def __init__(self, p, a, o, b, q):
        self.p, self.a, self.o, self.b, self.q = p, a, o, b, q


def sym_links(E, N, tag="l", max_off=None, first_node=1):
    """E optional symbolic links between nodes first_node..N-1; offsets >= -1 (unbounded unless max_off)."""
    out = []
    for i in range(E):
        p = sym.bool(f"{tag}{i}.present")
        a = sym.int(f"{tag}{i}.src", first_node, N - 1)
        o = sym.int(f"{tag}{i}.out", -1, max_off)
        b = sym.int(f"{tag}{i}.dst", first_node, N - 1)
        q = sym.int(f"{tag}{i}.in", -1, max_off)
        out.append(Link(p, a, o, b, q))
    return out


def _zsum(terms):
    return z3.Sum(*terms) if terms else z3.IntVal(0)


def make_store(N, links, requested=None, ops_list=None):
    """Hugr with root + N-1 children and the given (symbolic) links. Returns (hugr, nodes)."""
    h = Hugr()
    nodes = [h.root]
    for i in range(1, N):
        k = None if requested is None else requested[i]
        nodes.append(h.add_node(ops_list[i] if ops_list else node_op(i), num_outs=k))
    attach_links(h, links, {i: (0 if (requested is None or requested[i] is None) else requested[i]) for i in range(1, N)})
    return h, nodes


def attach_links(h, links, requested):
    """Install the (symbolic) links into a freshly built Hugr `h` that has no links yet.
    `requested`: node index -> output count requested at creation (for the port counters)."""
    if not sym.symbolic():
        for l in links:
            if l.p:
                h.add_link(Node(l.a).out(l.o), Node(l.b).inp(l.q))
        return
    assert len(h._links.fwd) == 0
    fwd = SymDict("links.fwd", SubPortCodec(OutPort), SubPortCodec(InPort))
    bck = SymDict("links.bck", SubPortCodec(InPort), SubPortCodec(OutPort))
    zl = [(to_z3_bool(l.p), to_z3_int(l.a), to_z3_int(l.o), to_z3_int(l.b), to_z3_int(l.q)) for l in links]
    for i, (p, a, o, b, q) in enumerate(zl):
        s_src = _zsum([z3.If(z3.And(pj, aj == a, oj == o), 1, 0) for (pj, aj, oj, _, _) in zl[:i]])
        s_dst = _zsum([z3.If(z3.And(pj, bj == b, qj == q), 1, 0) for (pj, _, _, bj, qj) in zl[:i]])
        ks = _SubPort(OutPort(Node(wrap_int(a)), wrap_int(o)), wrap_int(s_src))
        kd = _SubPort(InPort(Node(wrap_int(b)), wrap_int(q)), wrap_int(s_dst))
        fwd.seed(ks, links[i].p, kd)
        bck.seed(kd, links[i].p, ks)
    bm = BiMap.__new__(BiMap)
    bm.fwd, bm.bck = fwd, bck
    h._links = bm
    for v, req in requested.items():
        outs = to_z3_int(req)
        inps = z3.IntVal(0)
        for (p, a, o, b, q) in zl:
            c = z3.If(z3.And(p, a == v), o + 1, 0)
            outs = z3.If(c > outs, c, outs)
            c = z3.If(z3.And(p, b == v), q + 1, 0)
            inps = z3.If(c > inps, c, inps)
        h._nodes[v]._num_outs = wrap_int(outs)
        h._nodes[v]._num_inps = wrap_int(inps)


# ---------------------------------------------------------------------------
# the sequential model: ordered target lists per port, read off the link slots
# ---------------------------------------------------------------------------
def targets(links, v, o):
    """L((v,o)): ordered list of (node, offset) in-ports linked from out-port (v,o)."""
    out = []
    for l in links:
        if sym.and_(l.p, l.a == v, l.o == o):
            out.append((l.b, l.q))
    return out


def sources(links, v, q):
    out = []
    for l in links:
        if sym.and_(l.p, l.b == v, l.q == q):
            out.append((l.a, l.o))
    return out


def same_ports(got, want):
    """got: list of ports; want: list of (idx, offset) -> symbolic equality (lengths are concrete)."""
    if len(got) != len(want):
        return False
    ok = True
    for g, w in zip(got, want):
        ok = sym.and_(ok, g.node.idx == w[0], g.offset == w[1])
    return ok
