"""C04 — the graph store agrees with a sequential port-multigraph model.

Inductive step lemmas: the pre-state is an arbitrary store with N nodes and <= E live links
(store.py: each link individually optional, endpoints symbolic, port offsets unbounded >= -1,
sub-offsets = insertion ranks), ONE operation with symbolic arguments is executed, and every
query is compared with the sequential model.
"""
from hugr.hugr import Hugr
from hugr.hugr.node_port import Direction, InPort, Node, OutPort

from vrf.harness import store
from vrf.lemma import P, lemma
from vrf.symx import sym

def _N():
    return P(3, 3)  # root + 2 nodes (a third node multiplies the thorough tier beyond what completes; it has 3 links instead of 2)


def _E():
    return P(2, 3)


def _port_checks(h, nodes, links, tag, v=None, o=None, w=None, q=None):
    """linked_ports from both ends at a symbolic out-port (v,o) and in-port (w,q) agree with the model."""
    N = _N()
    v = sym.int(f"{tag}.qv", 1, N - 1) if v is None else v
    o = sym.int(f"{tag}.qo", -1, None) if o is None else o
    w = sym.int(f"{tag}.qw", 1, N - 1) if w is None else w
    q = sym.int(f"{tag}.qq", -1, None) if q is None else q
    got = list(h.linked_ports(OutPort(Node(v), o)))
    sym.check(f"{tag}:linked_ports_from_source_end", store.same_ports(got, store.targets(links, v, o)))
    got = list(h.linked_ports(InPort(Node(w), q)))
    sym.check(f"{tag}:linked_ports_from_target_end", store.same_ports(got, store.sources(links, w, q)))


def _links_multiset(h, links, tag):
    got = list(h.links())
    live = [l for l in links if sym.concretize(l.p)]
    ok = len(got) == len(live)
    if ok:
        # every model link appears the same number of times in links()
        for l in live:
            cnt_model = 0
            cnt_got = 0
            for m in live:
                if sym.and_(m.a == l.a, m.o == l.o, m.b == l.b, m.q == l.q):
                    cnt_model += 1
            for (s, t) in got:
                if sym.and_(s.node.idx == l.a, s.offset == l.o, t.node.idx == l.b, t.offset == l.q):
                    cnt_got += 1
            if cnt_model != cnt_got:
                ok = False
    sym.check(f"{tag}:links_reports_each_link_exactly_once", ok)


@lemma("C04", unbounded="port offsets (any integer >= -1, order ports included)",
       bounds="stores with 2 non-root nodes and <= 2 live links (quick) / <= 3 links (thorough), every aliasing of endpoints (multi-links, fan-out, fan-in)",
       outside="more than E simultaneous links; more nodes", opts={"max_paths": 400000, "timeout_s": 3000})
def queries_agree_with_model():
    N = _N()
    links = store.sym_links(_E(), N)
    h, nodes = store.make_store(N, links)
    _port_checks(h, nodes, links, "q")
    _links_multiset(h, links, "q")
    v, o = sym.int("hv", 1, N - 1), sym.int("ho", -1, None)
    w, q = sym.int("hw", 1, N - 1), sym.int("hq", -1, None)
    want = False
    for l in links:
        want = sym.or_(want, sym.and_(l.p, l.a == v, l.o == o, l.b == w, l.q == q))
    sym.check("q:has_link_iff_linked", sym.iff(h.has_link(OutPort(Node(v), o), InPort(Node(w), q)), want))
    # port counts never smaller than highest offset in use + 1
    x = sym.int("cv", 1, N - 1)
    lo_out, lo_in = 0, 0
    for l in links:
        lo_out = sym.ite(sym.and_(l.p, l.a == x, l.o + 1 > lo_out), l.o + 1, lo_out)
        lo_in = sym.ite(sym.and_(l.p, l.b == x, l.q + 1 > lo_in), l.q + 1, lo_in)
    sym.check("q:port_counts_cover_offsets_in_use", sym.and_(h.num_ports(Node(x), Direction.OUTGOING) >= lo_out,
                                                             h.num_ports(Node(x), Direction.INCOMING) >= lo_in,
                                                             h.num_out_ports(Node(x)) >= lo_out, h.num_in_ports(Node(x)) >= lo_in))
    sym.check("q:node_count", h.num_nodes() == N and len(h) == N and [n.idx for n in h] == list(range(N)))


@lemma("C04", params=lambda: [(v,) for v in range(1, _N())],
       bounds="as queries_agree_with_model, port offsets 0..1 and the order port (node-level listings iterate over the counted ports); "
              "requested output counts 0..1 (quick) / 0..2 (thorough); one task per queried node",
       opts={"max_paths": 400000, "timeout_s": 3000})
def node_listings_agree_with_model(v):
    N = _N()
    links = store.sym_links(P(2, 3), N, max_off=1)
    req = [None] + [sym.concretize(sym.int(f"req{i}", 0, P(1, 2))) for i in range(1, N)]
    h, nodes = store.make_store(N, links, requested=req)
    cnt_out = h.num_out_ports(nodes[v])
    cnt_in = h.num_in_ports(nodes[v])
    sym.check("n:requested_count_respected", cnt_out >= req[v])
    # NB: whether a counted port *without* links is listed is not fixed by the statement (and the
    # repository's own test-suite pins `num_outgoing == 0` after the only link of the graph is deleted),
    # so the oracle only demands: listed ports belong to the node, are in offset order and within the
    # count, every port that has links is listed, with exactly the model's ordered targets.
    outs = list(h.outgoing_links(nodes[v]))
    ok = True
    prev = -1
    listed = {}
    for (port, tg) in outs:
        off = sym.concretize(port.offset)
        ok = sym.and_(ok, port.node.idx == v, off > prev, off < cnt_out, store.same_ports(tg, store.targets(links, v, off)))
        prev = off
        listed[off] = True
    for l in links:
        if sym.concretize(sym.and_(l.p, l.a == v, l.o >= 0)):
            ok = sym.and_(ok, sym.concretize(l.o) in listed)
    sym.check("n:outgoing_links_lists_every_linked_port_in_order", ok)
    ins = list(h.incoming_links(nodes[v]))
    ok = True
    prev = -1
    listed = {}
    for (port, sr) in ins:
        off = sym.concretize(port.offset)
        ok = sym.and_(ok, port.node.idx == v, off > prev, off < cnt_in, store.same_ports(sr, store.sources(links, v, off)))
        prev = off
        listed[off] = True
    for l in links:
        if sym.concretize(sym.and_(l.p, l.b == v, l.q >= 0)):
            ok = sym.and_(ok, sym.concretize(l.q) in listed)
    sym.check("n:incoming_links_lists_every_linked_port_in_order", ok)
    sym.check("n:num_outgoing_incoming_consistent_with_listing", h.num_outgoing(nodes[v]) == len(outs) and h.num_incoming(nodes[v]) == len(ins))
    oo = [n.idx for n in h.outgoing_order_links(nodes[v])]
    want = [t[0] for t in store.targets(links, v, -1)]
    sym.check("n:outgoing_order_links", len(oo) == len(want) and all(sym.concretize(a == b) for a, b in zip(oo, want)))
    io = [n.idx for n in h.incoming_order_links(nodes[v])]
    want = [t[0] for t in store.sources(links, v, -1)]
    sym.check("n:incoming_order_links", len(io) == len(want) and all(sym.concretize(a == b) for a, b in zip(io, want)))


@lemma("C04", unbounded="port offsets of the existing links and of the new link",
       bounds="as queries_agree_with_model; one add_link / add_order_link with symbolic endpoints",
       opts={"max_paths": 400000, "timeout_s": 3000})
def add_link_step():
    N = _N()
    links = store.sym_links(_E(), N)
    h, nodes = store.make_store(N, links)
    a, b = sym.int("new.src", 1, N - 1), sym.int("new.dst", 1, N - 1)
    order = sym.concretize(sym.bool("order_link"))
    before_out = [h.num_out_ports(nodes[i]) for i in range(1, N)]
    before_in = [h.num_in_ports(nodes[i]) for i in range(1, N)]
    if order:
        o, q = -1, -1
        already = False
        for l in links:
            already = sym.or_(already, sym.and_(l.p, l.a == a, l.o == -1, l.b == b, l.q == -1))
        h.add_order_link(Node(a), Node(b))
        new = store.Link(sym.not_(already), a, o, b, q)
    else:
        o, q = sym.int("new.out", -1, None), sym.int("new.in", -1, None)
        h.add_link(OutPort(Node(a), o), InPort(Node(b), q))
        new = store.Link(True, a, o, b, q)
    after = links + [new]
    _port_checks(h, nodes, after, "add", a, o, b, q)   # the touched ports
    _port_checks(h, nodes, after, "add_other")         # any other port (symbolic)
    _links_multiset(h, after, "add")
    ok = True
    for i in range(1, N):
        eo = sym.ite(sym.and_(new.p, a == i, o + 1 > before_out[i - 1]), o + 1, before_out[i - 1])
        ei = sym.ite(sym.and_(new.p, b == i, q + 1 > before_in[i - 1]), q + 1, before_in[i - 1])
        ok = sym.and_(ok, h.num_out_ports(nodes[i]) == eo, h.num_in_ports(nodes[i]) == ei)
    sym.check("add:port_counts_are_max_of_old_and_offset_plus_one", ok)
    sym.check("add:nodes_untouched", h.num_nodes() == N and [c.idx for c in h.children()] == list(range(1, N)))


@lemma("C04", unbounded="port offsets",
       bounds="as queries_agree_with_model; one delete_link with symbolic endpoints (present or absent link, any position of a fan-out)",
       opts={"max_paths": 400000, "timeout_s": 3000})
def delete_link_step():
    N = _N()
    links = store.sym_links(_E(), N)
    h, nodes = store.make_store(N, links)
    a, o = sym.int("del.src", 1, N - 1), sym.int("del.out", -1, None)
    b, q = sym.int("del.dst", 1, N - 1), sym.int("del.in", -1, None)
    # model: remove the first occurrence (in source-port order)
    after = []
    removed = False
    later_on_same_port = False
    for l in links:
        hit = sym.and_(l.p, l.a == a, l.o == o, l.b == b, l.q == q)
        if not removed and sym.concretize(hit):
            removed = True
            continue
        if removed:
            later_on_same_port = sym.or_(later_on_same_port, sym.and_(l.p, sym.or_(sym.and_(l.a == a, l.o == o), sym.and_(l.b == b, l.q == q))))
        after.append(l)
    sym.predicate("deleted_link_not_last_on_its_ports", later_on_same_port)
    h.delete_link(OutPort(Node(a), o), InPort(Node(b), q))
    _port_checks(h, nodes, after, "del", a, o, b, q)
    _port_checks(h, nodes, after, "del_other")
    _links_multiset(h, after, "del")
    sym.check("del:nodes_untouched", h.num_nodes() == N)


@lemma("C04", bounds="as queries_agree_with_model with port offsets -1..1; delete one (symbolic) leaf node with any subset of its ports connected, "
                     "multi-linked or unconnected; requested output counts 0..2",
       opts={"max_paths": 400000, "timeout_s": 3000})
def delete_node_step():
    N = _N()
    links = store.sym_links(P(2, 3), N, max_off=1)
    req = [None] + [sym.concretize(sym.int(f"req{i}", 0, P(1, 2))) for i in range(1, N)]
    h, nodes = store.make_store(N, links, requested=req)
    v = sym.concretize(sym.int("v", 1, N - 1))
    touches = False
    order_or_multi = False
    for i, l in enumerate(links):
        t = sym.and_(l.p, sym.or_(l.a == v, l.b == v))
        touches = sym.or_(touches, t)
    sym.predicate("node_has_links", touches)
    sym.predicate("node_has_unconnected_counted_port", req[v] > 0)
    old = h[nodes[v]]
    ret = h.delete_node(nodes[v])
    sym.check("dn:returns_old_data", ret is old)
    after = []
    for l in links:
        if sym.concretize(sym.and_(l.p, sym.or_(l.a == v, l.b == v))):
            continue
        after.append(l)
    sym.check("dn:node_unreachable", v not in [n.idx for n in h] and len(h) == N - 1 and h.num_nodes() == N - 1)
    try:
        h[nodes[v]]
        sym.check("dn:lookup_raises_keyerror", False)
    except KeyError:
        sym.check("dn:lookup_raises_keyerror", True)
    sym.check("dn:detached_from_parent", [c.idx for c in h.children()] == [i for i in range(1, N) if i != v])
    got = list(h.links())
    mention = False
    for (s, t) in got:
        mention = sym.or_(mention, s.node.idx == v, t.node.idx == v)
    sym.check("dn:no_remaining_link_mentions_deleted_node", sym.not_(mention))
    _links_multiset(h, after, "dn")
    w = [i for i in range(1, N) if i != v][sym.concretize(sym.int("other", 0, N - 3))] if N > 2 else 1
    _port_checks(h, nodes, after, "dn_other", w, None, w, None)


@lemma("C04", bounds="stores of 2..4 non-root nodes where any subset has been deleted (free list in deletion order), then one add_node / add_const",
       outside="longer delete/add interleavings (each add is one such step)")
def add_node_step():
    from hugr import val
    n = sym.concretize(sym.int("n", 2, 4))
    h = Hugr()
    nodes = [h.add_node(store.node_op(i), metadata={"i": i}) for i in range(n)]
    order = []
    for j in range(n):
        if sym.concretize(sym.bool(f"del{j}")):
            order.append(j)
    if sym.concretize(sym.bool("reverse")):
        order.reverse()
    for j in order:
        h.delete_node(nodes[j])
    live = [nd.idx for nd in nodes if nodes.index(nd) not in order]
    k = sym.concretize(sym.int("num_outs", -1, 2))
    md = {"new": 1} if sym.concretize(sym.bool("meta")) else None
    if sym.concretize(sym.bool("const")):
        new = h.add_const(val.TRUE, metadata=md)
        k = None
    else:
        k = None if k < 0 else k
        new = h.add_node(store.node_op(99), num_outs=k, metadata=md)
    expect_idx = nodes[order[-1]].idx if order else n + 1
    sym.check("an:index_is_last_freed_or_fresh", new.idx == expect_idx)
    sym.check("an:live_nodes_keep_index", [x.idx for x in h] == sorted([0] + live + [new.idx]))
    sym.check("an:registered_as_last_child", h.children()[-1] == new and [c.idx for c in h.children()] == live + [new.idx])
    sym.check("an:fresh_node_data", h[new].parent == h.root and h[new].children == [] and dict(h[new].metadata) == (md or {})
              and h.num_in_ports(new) == 0 and h.num_out_ports(new) == (k or 0) and list(h.links()) == [])
    if k is not None:
        sym.check("an:handle_knows_output_count", len(list(new)) == k)
    sym.check("an:count", h.num_nodes() == len(live) + 2 and len(h) == len(live) + 2)


@lemma("C04", unbounded="the shared port's offset (any integer >= -1)",
       bounds="one port carrying 4 links (quick) / 5 (thorough), fan-out from one source port or fan-in to one target port, the other ends pairwise distinct ports or all the same port; delete the link at a symbolic position; then add one more link to the same port",
       outside="larger fan-outs", opts={"max_paths": 400000, "timeout_s": 3000})
def delete_in_fanout_step():
    F = P(4, 5)
    fan_out = sym.concretize(sym.bool("fan_out"))
    o = sym.int("shared.offset", -1, None)
    links = []
    same_target = sym.concretize(sym.bool("all_to_same_port"))
    for i in range(F):
        b = 2 if same_target else 1 + i % 2
        q = 0 if same_target else i // 2
        links.append(store.Link(True, 1, o, b, q) if fan_out else store.Link(True, b, q, 1, o))
    h, nodes = store.make_store(3, links)
    k = sym.concretize(sym.int("delete_position", 0, F - 1))
    sym.predicate("at_least_two_links_after_the_deleted_one", k <= F - 3)
    victim = links[k]
    # delete_link removes the FIRST link with these endpoints: model accordingly
    first = k
    for j in range(k):
        if sym.concretize(sym.and_(links[j].a == victim.a, links[j].o == victim.o, links[j].b == victim.b, links[j].q == victim.q)):
            first = j
            break
    h.delete_link(OutPort(Node(victim.a), victim.o), InPort(Node(victim.b), victim.q))
    after = [l for j, l in enumerate(links) if j != first]
    _port_checks(h, nodes, after, "fan", 1, o, 1, o)
    _port_checks(h, nodes, after, "fan_other")
    _links_multiset(h, after, "fan")
    # the port stays usable: a further link is appended at the end
    nb, nq = 2, sym.int("new.other_off", 0, 1)
    if fan_out:
        h.add_link(OutPort(Node(1), o), InPort(Node(nb), nq))
        after2 = after + [store.Link(True, 1, o, nb, nq)]
    else:
        h.add_link(OutPort(Node(nb), nq), InPort(Node(1), o))
        after2 = after + [store.Link(True, nb, nq, 1, o)]
    _port_checks(h, nodes, after2, "fan_then_add", 1, o, 1, o)
    _links_multiset(h, after2, "fan_then_add")


# insert_hugr is one of the store operations of the statement: the inductive step is the C08 embedding lemma
from vrf.harness import c08 as _c08  # noqa: E402
from vrf.harness.c02 import deletion_masks as _masks  # noqa: E402

lemma("C04", name="insert_hugr_step", params=lambda: [(m,) for m in _masks(4)],
      unbounded="port offsets of the inserted HUGR's links",
      bounds="as C08 insert_hugr_is_isomorphic_embedding (B with holes / index reuse / metadata / multi- and order links; one task per deletion set)",
      outside="larger B / A", opts={"max_paths": 400000, "timeout_s": 3000})(_c08.insert_hugr_is_isomorphic_embedding)
