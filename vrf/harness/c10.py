"""C10 — extension definitions round-trip; the bundled standard library matches the specification."""
import json
import os

from hugr import ext, tys, val
from hugr._serialization import extension as ext_s
from hugr.tys import TypeBound

from vrf.lemma import P, lemma, native
from vrf.oracle.dump import deep_eq, dump
from vrf.symx import sym

B = tys.Bool


def _reqs_normalised(d):
    """Extension sets are sets: compare `runtime_reqs` lists irrespective of order."""
    if isinstance(d, dict):
        return {k: (sorted(v) if k == "runtime_reqs" and isinstance(v, list) and all(isinstance(x, str) for x in v) else _reqs_normalised(v))
                for k, v in d.items()}
    if isinstance(d, list):
        return [_reqs_normalised(x) for x in d]
    return d


def _extension():
    """An extension with symbolic leaves: descriptions, misc values, bounds, binary flag, from-params indices."""
    has_reqs = sym.concretize(sym.bool("has_reqs"))
    # (version shape tied to the same choice bit: a plain X.Y.Z, or one with pre-release and build parts)
    ver = ext.Version(1, 0, 0, prerelease="rc.1", build="build.7") if has_reqs else ext.Version(1, 2, 3)
    e = ext.Extension("my.ext", ver, runtime_reqs={"prelude", "other.ext", "my.ext"} if has_reqs else set())   # (requirements may name the extension itself)
    nt = sym.concretize(sym.int("n_types", 0, P(1, 2)))
    tds = []
    for i in range(nt):
        params = [tys.TypeTypeParam(sym.enum(f"t{i}.pb", TypeBound)), tys.BoundedNatParam(sym.int(f"t{i}.ub", 0, None))]
        if sym.concretize(sym.bool(f"t{i}.explicit")):
            bound = ext.ExplicitBound(sym.enum(f"t{i}.b", TypeBound))
        else:
            bound = ext.FromParamsBound([sym.int(f"t{i}.idx{j}", 0, 1) for j in range(sym.concretize(sym.int(f"t{i}.nidx", 0, 2)))])
        tds.append(e.add_type_def(ext.TypeDef(f"T{i}", sym.str(f"t{i}.descr", 3), params, bound)))
    no = sym.concretize(sym.int("n_ops", 0, P(1, 2 if nt == 0 else 1)))   # thorough: two type definitions OR two operation definitions (the product does not finish)
    for i in range(no):
        binary = sym.concretize(sym.bool(f"o{i}.binary"))
        if binary and sym.concretize(sym.bool(f"o{i}.no_sig")):
            sig = ext.OpDefSig(None, True)
        else:
            v0 = tys.Variable(0, TypeBound.Any)
            outs = [tds[0].instantiate([v0.type_arg(), tys.BoundedNatArg(sym.int(f"o{i}.n", 0, None))])] if tds else [v0]
            body = tys.FunctionType([v0, B], outs, ["zzz.req", "aaa.req"])
            poly = tys.PolyFuncType([tys.TypeTypeParam(TypeBound.Any)], body) if sym.concretize(sym.bool(f"o{i}.poly")) else tys.FunctionType([B], [B])
            sig = ext.OpDefSig(poly, binary)
        misc = {"k": sym.int(f"o{i}.misc", None, None), "s": "x"} if sym.concretize(sym.bool(f"o{i}.has_misc")) else {}
        e.add_op_def(ext.OpDef(f"Op{i}", sig, sym.str(f"o{i}.descr", 3), misc))
    # one definition with a docstring-like description (several lines, indented continuation, surrounding blank lines): kept verbatim
    e.add_op_def(ext.OpDef("Documented", ext.OpDefSig(tys.FunctionType([B], [B])), "\n    First line.\n\n        indented continuation\n    last line  \n\n"))
    nv = sym.concretize(sym.int("n_values", 0, 1))
    for i in range(nv):
        e.add_extension_value(ext.ExtensionValue(f"V{i}", val.Tuple(val.TRUE, val.UnitSum(sym.concretize(sym.int("v.tag", 0, 2)), 3))))
    return e


def _same_sig(a, b):
    if a.poly_func is None or b.poly_func is None:
        return a.poly_func is None and b.poly_func is None and a.binary == b.binary
    pa, pb = a.poly_func, b.poly_func
    # extension types legitimately come back in their opaque form: compare rows by their encoding
    rows_a = [dump(t._to_serial_root()) for t in pa.body.input + pa.body.output]
    rows_b = [dump(t._to_serial_root()) for t in pb.body.input + pb.body.output]
    return sym.and_(pa.params == pb.params, len(pa.body.input) == len(pb.body.input), deep_eq(rows_a, rows_b),
                    sorted(pa.body.runtime_reqs) == sorted(pb.body.runtime_reqs), a.binary == b.binary)


@lemma("C10", unbounded="descriptions (strings), misc values / nat arguments / parameter bounds (integers), type bounds (symbolic)",
       bounds="extensions with 0..1 (quick) / 0..2 (thorough) type definitions (explicit or from-params bound with 0..2 symbolic indices), 0..1 / 0..2 operation definitions (thorough: two of them only without type definitions) "
              "(monomorphic / polymorphic / binary with or without signature, with or without misc), 0..1 values; no lowering functions",
       outside="lowering functions (excluded by the quantifier)", opts={"max_paths": 200000, "timeout_s": 2000})
def extension_roundtrip():
    e = _extension()
    s = e._to_serial()
    if not sym.symbolic():
        s = ext_s.Extension.model_validate_json(e.to_json())
    e2 = s.deserialize()
    sym.check("name_version_requirements", e2.name == e.name and e2.version == e.version and str(e2.version) == str(e.version)
              and set(e2.runtime_reqs) == set(e.runtime_reqs))
    ok = sorted(e2.types) == sorted(e.types)
    if ok:
        for k, t in e.types.items():
            t2 = e2.types[k]
            ok = sym.and_(ok, t2.name == t.name, t2.description == t.description, t2.params == t.params, t2.bound == t.bound, t2._extension is e2)
    sym.check("type_definitions_preserved", ok)
    ok = sorted(e2.operations) == sorted(e.operations)
    if ok:
        for k, o in e.operations.items():
            o2 = e2.operations[k]
            ok = sym.and_(ok, o2.name == o.name, o2.description == o.description, o2.misc == o.misc, _same_sig(o2.signature, o.signature),
                          o2.lower_funcs == [], o2._extension is e2)
    sym.check("operation_definitions_preserved", ok)
    ok = sorted(e2.values) == sorted(e.values)
    if ok:
        for k, v in e.values.items():
            ok = ok and e2.values[k].name == v.name and e2.values[k].val == v.val
    sym.check("values_preserved", ok)
    sym.check("reserializes_to_same_document", deep_eq(_reqs_normalised(dump(e2._to_serial())), _reqs_normalised(dump(e._to_serial()))))
    # definitions added AFTER an extension has been serialised once are part of the next serialisation
    for k, o2 in e2.operations.items():
        if o2.signature.poly_func is not None:
            sym.check("decoded_op_def_requires_its_extension", e2.name in o2.signature.poly_func.body.runtime_reqs)
        sym.check("decoded_op_def_owner", o2.get_extension() is e2)


@lemma("C10", bounds="an extension with one definition of each kind (or none: symbolic choice), serialised, then extended by one value / type / operation definition or a "
                     "redefined value (any order of two such steps, a serialisation after each)", outside="longer histories")
def later_definitions_are_serialised():
    e = ext.Extension("late.ext", ext.Version(0, 1, 0))
    if sym.concretize(sym.bool("starts_non_empty")):
        e.add_type_def(ext.TypeDef("T0", "d", [], ext.ExplicitBound(TypeBound.Any)))
        e.add_op_def(ext.OpDef("Op0", ext.OpDefSig(tys.FunctionType([B], [B])), "d"))
        e.add_extension_value(ext.ExtensionValue("late", val.FALSE))
    dump(e._to_serial())
    for step in range(2):
        kind = sym.concretize(sym.int(f"step{step}", 0, 3))
        if kind == 0:
            e.add_extension_value(ext.ExtensionValue(f"v{step}", val.FALSE))
        elif kind == 1:
            e.add_type_def(ext.TypeDef(f"T{step + 1}", "late", [], ext.ExplicitBound(TypeBound.Copyable)))
        elif kind == 2:
            e.add_op_def(ext.OpDef(f"Op{step + 1}", ext.OpDefSig(tys.FunctionType([B], [B])), "late"))
        else:
            e.add_extension_value(ext.ExtensionValue("late", val.TRUE))  # (re)definition
        d = dump(e._to_serial())
        sym.check("later_definitions_are_serialised",
                  sorted(d["values"]) == sorted(e.values) and sorted(d["types"]) == sorted(e.types) and sorted(d["operations"]) == sorted(e.operations)
                  and all(d["values"][k] == dump(v._to_serial()) for k, v in e.values.items()))
        e2 = ext.Extension.from_json(e.to_json())
        sym.check("later_definitions_are_loaded_back", sorted(e2.values) == sorted(e.values) and sorted(e2.types) == sorted(e.types) and sorted(e2.operations) == sorted(e.operations))


@lemma("C10", bounds="signatures with 0..3 prior requirements drawn from {own name, 'a', 'b'} with repetitions; polymorphic or plain function type; binary op without signature")
def op_def_names_its_extension():
    e = ext.Extension("own.ext", ext.Version(0, 1, 0))
    pool = ["own.ext", "a", "b"]
    reqs = [pool[sym.concretize(sym.int(f"r{j}", 0, 2))] for j in range(sym.concretize(sym.int("n_reqs", 0, 3)))]
    kind = sym.concretize(sym.int("kind", 0, 2))
    if kind == 0:
        sig = ext.OpDefSig(tys.FunctionType([B], [B], list(reqs)))
    elif kind == 1:
        sig = ext.OpDefSig(tys.PolyFuncType([tys.StringParam()], tys.FunctionType([B], [], list(reqs))))
    else:
        sig = ext.OpDefSig(None, True)
    od = e.add_op_def(ext.OpDef("Op", sig, "d"))
    sym.check("owner_reported", od.get_extension() is e and e.get_op("Op") is od and e.operations["Op"] is od)
    if kind != 2:
        got = od.signature.poly_func.body.runtime_reqs
        sym.check("own_extension_among_requirements", "own.ext" in got)
        sym.check("prior_requirements_kept", set(got) == set(reqs) | {"own.ext"})
        inst = od.instantiate([tys.StringArg("x")] if kind == 1 else [], tys.FunctionType([B], [B] if kind == 0 else []))
        sym.check("instantiated_signature_requires_extension", "own.ext" in inst.outer_signature().runtime_reqs)
    sym.check("qualified_name", od.qualified_name() == "own.ext.Op")


@native
def _std_files():
    root = os.environ.get("VERIF_REPO", "/repo")
    spec = os.path.join(root, "specification/std_extensions")
    bundled = os.path.join(root, "hugr-py/src/hugr/std/_json_defs")
    out = []
    for d, _, fs in os.walk(spec):
        for f in fs:
            if f.endswith(".json"):
                rel = os.path.relpath(os.path.join(d, f), spec)
                out.append((rel, os.path.join(spec, rel), os.path.join(bundled, rel)))
    extra = []
    for d, _, fs in os.walk(bundled):
        for f in fs:
            if f.endswith(".json") and not os.path.exists(os.path.join(spec, os.path.relpath(os.path.join(d, f), bundled))):
                extra.append(os.path.relpath(os.path.join(d, f), bundled))
    return sorted(out), extra


@native
def _file_facts(spec_path, bundled_path):
    a = open(spec_path, "rb").read()
    same = os.path.exists(bundled_path) and open(bundled_path, "rb").read() == a
    try:
        e = ext_s.Extension.model_validate_json(a).deserialize()
        loads = True
        orig = json.loads(a)
        once = e.to_json()
        twice = ext.Extension.from_json(once).to_json()
        # the statement is about extensions (objects): saving and loading one is a fixed point, and every
        # definition of the published file is present in the loaded extension
        stable = (_reqs_normalised(json.loads(twice)) == _reqs_normalised(json.loads(once))
                  and sorted(e.types) == sorted(orig["types"]) and sorted(e.operations) == sorted(orig["operations"])
                  and sorted(e.values) == sorted(orig["values"]) and e.name == orig["name"] and str(e.version) == orig["version"])
    except Exception:  # noqa: BLE001
        loads, stable = False, False
    return same, loads, stable


@lemma("C10", bounds="every file under specification/std_extensions (concrete facts: byte equality with the bundled copy, loads, re-serialises to what "
                     "the decoder read); typed helpers int_t(w) for a symbolic width 0..6, float/string/array/list/static-array types and constants, "
                     "Not and DivMod denote definitions that exist with matching parameters")
def bundled_std_matches_spec():
    files, extra = _std_files()
    sym.check("no_bundled_file_missing_from_spec", extra == [] and len(files) >= 11)
    ok_same, ok_load, ok_stable = True, True, True
    for rel, sp, bp in files:
        same, loads, stable = _file_facts(sp, bp)
        ok_same, ok_load, ok_stable = ok_same and same, ok_load and loads, ok_stable and stable
    sym.check("bundled_files_byte_identical_to_spec", ok_same)
    sym.check("every_std_extension_loads", ok_load)
    sym.check("std_extension_reserialises_faithfully", ok_stable)
    from hugr import std
    from hugr.std import float as sfloat
    from hugr.std import int as sint
    from hugr.std import logic, prelude
    from hugr.std.collections import array, list as slist, static_array
    w = sym.int("width", 0, 6)
    t = sint.int_t(w)
    d = sint.INT_TYPES_EXTENSION.types["int"]
    sym.check("int_type_helper", t.type_def is d and len(t.args) == len(d.params) == 1 and isinstance(d.params[0], tys.BoundedNatParam)
              and sym.concretize(t.args[0].n == w) and d.get_extension().name == "arithmetic.int.types")
    iv = sint.IntVal(sym.int("v", 0, None), sym.concretize(w)).to_value()
    sym.check("int_constant_helper", iv.typ == sint.int_t(sym.concretize(w)) and iv.extensions == ["arithmetic.int.types"] and iv.name == "ConstInt")
    sym.check("float_helpers", sfloat.FLOAT_T.type_def is sfloat.FLOAT_TYPES_EXTENSION.types["float64"] and sfloat.FLOAT_T.args == []
              and sfloat.FLOAT_TYPES_EXTENSION.types["float64"].params == [] and sfloat.FloatVal(0.5).to_value().typ == sfloat.FLOAT_T)
    sym.check("string_helpers", prelude.STRING_T.type_def is std.PRELUDE.types["string"] if False else prelude.STRING_T.type_def.name == "string"
              and prelude.STRING_T.type_def.params == [] and prelude.StringVal("x").to_value().typ == prelude.STRING_T)
    el = [B, tys.Qubit, sint.int_t(3)][sym.concretize(sym.int("elem", 0, 2))]
    n = sym.concretize(sym.int("size", 0, 3))
    a = array.Array(el, n)
    ad = array.EXTENSION.types["array"]
    sym.check("array_helper", a.type_def is ad and len(ad.params) == 2 and isinstance(ad.params[0], tys.BoundedNatParam) and isinstance(ad.params[1], tys.TypeTypeParam)
              and a.args == [tys.BoundedNatArg(n), tys.TypeTypeArg(el)])
    li = slist.List(el)
    ld = slist.EXTENSION.types["List"]
    sym.check("list_helper", li.type_def is ld and len(ld.params) == 1 and isinstance(ld.params[0], tys.TypeTypeParam) and li.args == [tys.TypeTypeArg(el)])
    if el is not tys.Qubit:
        sa = static_array.StaticArray(el)
        sd = static_array.EXTENSION.types["static_array"]
        sym.check("static_array_helper", sa.type_def is sd and len(sd.params) == 1 and sa.args == [tys.TypeTypeArg(el)])
    sym.check("logic_not_helper", logic.Not.op_def() is logic.EXTENSION.operations["Not"] and logic.Not.outer_signature().input == [B] and logic.Not.outer_signature().output == [B])
    dm = sint._DivModDef(sym.concretize(w))
    od = sint.INT_OPS_EXTENSION.operations["idivmod_u"]
    sym.check("divmod_helper", dm.op_def() is od and len(od.signature.poly_func.params) == len(dm.type_args()) == 1
              and dm.outer_signature().input == [sint.int_t(sym.concretize(w))] * 2 and dm.outer_signature().output == [sint.int_t(sym.concretize(w))] * 2)
