"""C15 — index-based (tracked) wiring is equivalent to explicit wiring."""
from hugr import ops, tys
from hugr.build.dfg import Dfg
from hugr.build.tracked_dfg import TrackedDfg

from vrf.harness.common import port_lists, same_structure
from vrf.lemma import P, lemma
from vrf.symx import sym

B = tys.Bool


def _op(k):
    return ops.Custom(f"op{k}", tys.FunctionType([B] * k, [B] * k), extension="e")


def _twin(w, holes=True):
    t = TrackedDfg(*[B] * w, track_inputs=True)
    d = Dfg(*[B] * w)
    model = list(d.inputs())
    if holes:
        for j in range(w):
            if sym.concretize(sym.bool(f"hole{j}")):
                got = t.untrack_wire(j)
                sym.check("untrack_returns_the_wire", got == model[j])
                model[j] = None
    return t, d, model


@lemma("C15", params=lambda: [(w,) for w in P([1, 2], [1, 2, 3])],
       bounds="circuits of width 1..2 (quick) / 1..3 (thorough), one task per width; every pattern of untracked holes; 1..2 commands of 1..2 arguments, each argument "
                     "symbolically a tracked index (symbolic, duplicates allowed) or an explicit wire; metadata present or absent; "
                     "outputs set from tracked indices",
       outside="wider circuits / longer programs; negative indices", opts={"max_paths": 400000, "timeout_s": 3000})
def tracked_program_equals_explicit_program(w):
    t, d, model = _twin(w)
    steps = sym.concretize(sym.int("steps", 1, 2))
    for s in range(steps):
        k = sym.concretize(sym.int(f"s{s}.nargs", 1, 2))
        at, ad = [], []
        bad = False
        for a in range(k):
            if sym.concretize(sym.bool(f"s{s}.a{a}.is_index")):
                idx = sym.int(f"s{s}.a{a}.idx", 0, len(model) - 1)
                mw = model[idx]
                at.append(sym.concretize(idx))
                if mw is None:
                    bad = True
                ad.append(mw)
            else:
                j = sym.concretize(sym.int(f"s{s}.a{a}.wire", 0, min(w, 2) - 1))
                at.append(t.inputs()[j])
                ad.append(d.inputs()[j])
        op = _op(k)
        md = {"label": s} if (s == 0 and sym.concretize(sym.bool(f"s{s}.meta"))) else None
        sym.predicate("metadata_given", md is not None)
        if bad:
            try:
                t.add(op(*at), metadata=md)
                sym.check("untracked_index_in_command_refused", False)
            except IndexError:
                sym.check("untracked_index_in_command_refused", True)
            return
        nt = t.add(op(*at), metadata=md)
        nd = d.add_op(op, *ad, metadata=md)
        sym.check("same_node_added", nt.idx == nd.idx)
        for pos, a in enumerate(at):
            if isinstance(a, int):
                model[a] = nd.out(pos)
        sym.check("indices_rebound_to_new_outputs_at_argument_position", t.tracked == model)
        sym.check("node_metadata_kept", dict(t.hugr[nt].metadata) == (md or {}) and dict(nt.metadata) == (md or {}))
    how = sym.concretize(sym.int("outputs", 0, 1))
    live = [m for m in model if m is not None]
    if how == 0:
        t.set_tracked_outputs()
        d.set_outputs(*live)
    else:
        idxs = [i for i, m in enumerate(model) if m is not None]
        idxs.reverse()
        t.set_indexed_outputs(*idxs)
        d.set_outputs(*[model[i] for i in idxs])
    sym.check("same_hugr_node_for_node_link_for_link", same_structure(t.hugr, d.hugr))
    sym.check("same_link_order_on_every_port", port_lists(t.hugr) == port_lists(d.hugr))


@lemma("C15", bounds="width 0..3; up to 3 bookkeeping operations (track_wire / track_wires / track_inputs / untrack_wire) with symbolic targets")
def tracking_index_discipline():
    w = sym.concretize(sym.int("width", 0, 3))
    t = TrackedDfg(*[B] * w, track_inputs=sym.concretize(sym.bool("track_inputs")))
    model = list(t.tracked)
    sym.check("initial_tracking", model == (list(t.inputs()) if model else []))
    for s in range(sym.concretize(sym.int("steps", 0, 3))):
        kind = sym.concretize(sym.int(f"s{s}.kind", 0, 3))
        if kind == 0 and w > 0:
            wire = t.inputs()[sym.concretize(sym.int(f"s{s}.wire", 0, w - 1))]
            i = t.track_wire(wire)
            sym.check("track_appends_fresh_index", i == len(model))
            model.append(wire)
        elif kind == 1:
            ids = t.track_wires(t.inputs())
            sym.check("track_wires_consecutive_indices", ids == list(range(len(model), len(model) + w)))
            model.extend(t.inputs())
        elif kind == 2:
            ids = t.track_inputs()
            sym.check("track_inputs_consecutive_indices", ids == list(range(len(model), len(model) + w)))
            model.extend(t.inputs())
        elif model:
            i = sym.int(f"s{s}.untrack", 0, len(model) - 1)
            ic = sym.concretize(i)
            try:
                got = t.untrack_wire(i)
                sym.check("untrack_returns_wire_of_live_index", model[ic] is not None and got == model[ic])
            except IndexError:
                sym.check("untrack_refuses_freed_index", model[ic] is None)
            model[ic] = None
        sym.check("tracked_list_matches_model", t.tracked == model)
    for i, m in enumerate(model):
        if m is None:
            try:
                t.tracked_wire(i)
                sym.check("freed_index_stays_free", False)
            except IndexError:
                sym.check("freed_index_stays_free", True)
        else:
            sym.check("tracked_wire_lookup", t.tracked_wire(i) == m)
    # finishing the graph: every live index becomes an output, in index order (the same wire may be tracked at several indices)
    live = [m for m in model if m is not None]
    t.set_tracked_outputs()
    outn = t.output_node
    got = [list(t.hugr.linked_ports(outn.inp(j))) for j in range(len(live))]
    sym.check("tracked_outputs_are_the_live_wires_in_index_order",
              got == [[m.out_port()] for m in live] and t.hugr.num_in_ports(outn) == len(live) and len(t.parent_op.outer_signature().output) == len(live))
