"""C05 — types, parameters, arguments, values and operations survive encoding and decoding.

Objects are built by the real constructors with symbolic leaves (names, descriptions, extension
ids: symbolic strings; tags, indices, sizes: symbolic ints; bounds: symbolic enum members);
`x._to_serial()` -> serial model (pydantic `model_construct` when symbolic) -> `deserialize()`.
A field that is dropped, defaulted or swapped on the way makes the decoded object differ from
the symbolic original for some leaf value, which the solver produces.  The JSON text leg
(pydantic dump + parse) is exercised on the concrete replay of every path.
"""
import json

from hugr import ops, tys, val
from hugr._serialization import ops as sops
from hugr._serialization import tys as stys
from hugr.hugr import Hugr
from hugr.hugr.node_port import InPort, Node, OutPort
from hugr.tys import TypeBound

from vrf.lemma import P, lemma
from vrf.oracle.dump import deep_eq, dump, real_dump
from vrf.symx import sym

_n = [0]


def _fresh(tag):
    _n[0] += 1
    return f"{tag}#{_n[0]}"


def S(tag):
    return sym.str(_fresh(tag), maxlen=3)


def I(tag, lo=0, hi=None):
    return sym.int(_fresh(tag), lo, hi)


def Bd(tag):
    return sym.enum(_fresh(tag), TypeBound)


def leaf_type(k):
    if k == 0:
        return tys.Qubit
    if k == 1:
        return tys.Bool
    if k == 2:
        return tys.USize()
    if k == 3:
        return tys.Variable(I("var.i"), Bd("var.b"))
    if k == 4:
        return tys.RowVariable(I("row.i"), Bd("row.b"))
    if k == 5:
        return tys.Alias(S("alias.name"), Bd("alias.b"))
    if k == 6:
        return tys.Opaque(S("opq.id"), Bd("opq.b"), [tys.BoundedNatArg(I("opq.n"))], S("opq.ext"))
    if k == 7:
        return tys.UnitSum(sym.concretize(sym.int(_fresh("usum.size"), 0, 3)))
    raise ValueError(k)


N_LEAF = 8


def some_type(tag, depth):
    """A type chosen symbolically: leaves or (depth > 0) composites of smaller types."""
    nk = N_LEAF + (5 if depth > 0 else 0)
    k = sym.concretize(sym.int(_fresh(tag + ".kind"), 0, nk - 1))
    if k < N_LEAF:
        return leaf_type(k)
    k -= N_LEAF
    if k == 0:
        i_row, o_row = row(tag + ".in", depth - 1), row(tag + ".out", depth - 1)
        # requirement list: one symbolic name, or (for the function type without inputs and outputs) three concrete names, out of order, one repeated
        return tys.FunctionType(i_row, o_row, [S("fn.req")] if (i_row or o_row) else ["zz.ext", "aa.ext", "zz.ext"])
    if k == 1:
        return tys.Sum([row(tag + f".v{j}", depth - 1) for j in range(sym.concretize(sym.int(_fresh(tag + ".nv"), 0, 2)))])
    if k == 2:
        return tys.Tuple(*row(tag + ".t", depth - 1))
    if k == 3:
        return tys.Option(*row(tag + ".o", depth - 1))
    return tys.Either(row(tag + ".l", depth - 1, 1), row(tag + ".r", depth - 1, 1))


def row(tag, depth, maxlen=None):
    n = sym.concretize(sym.int(_fresh(tag + ".len"), 0, maxlen if maxlen is not None else P(1, 2)))
    return [some_type(f"{tag}{i}", depth) for i in range(n)]


def _delta():
    """An extension delta: one symbolic name, or three concrete names out of order with a repeat."""
    return [S("delta")] if sym.concretize(sym.bool(_fresh("delta.symbolic"))) else ["zz.ext", "aa.ext", "zz.ext"]


def atom_row(tag, maxlen=2):
    """Cheap rows for operations: distinct opaque atoms with symbolic names/bounds."""
    n = sym.concretize(sym.int(_fresh(tag + ".len"), 0, maxlen))
    return [tys.Opaque(S(f"{tag}{i}.id"), Bd(f"{tag}{i}.b"), [], "atoms") for i in range(n)]


def some_param(tag, depth):
    k = sym.concretize(sym.int(_fresh(tag + ".kind"), 0, 5 if depth > 0 else 3))
    if k == 0:
        return tys.TypeTypeParam(Bd("p.b"))
    if k == 1:
        return tys.BoundedNatParam(I("p.ub") if sym.concretize(sym.bool(_fresh("p.has_ub"))) else None)
    if k == 2:
        return tys.StringParam()
    if k == 3:
        return tys.ExtensionsParam()
    if k == 4:
        return tys.ListParam(some_param(tag + ".e", depth - 1))
    return tys.TupleParam([some_param(tag + f".{j}", depth - 1) for j in range(sym.concretize(sym.int(_fresh(tag + ".n"), 0, 2)))])


def some_arg(tag, depth):
    k = sym.concretize(sym.int(_fresh(tag + ".kind"), 0, 5 if depth > 0 else 4))
    if k == 0:
        return tys.TypeTypeArg(leaf_type(sym.concretize(sym.int(_fresh(tag + ".t"), 0, N_LEAF - 1))))
    if k == 1:
        return tys.BoundedNatArg(I("a.n"))
    if k == 2:
        return tys.StringArg(S("a.s"))
    if k == 3:
        return tys.ExtensionsArg([S("a.e1"), S("a.e2")])
    if k == 4:
        return tys.VariableArg(I("a.idx"), some_param(tag + ".p", 0))
    return tys.SequenceArg([some_arg(tag + f".{j}", depth - 1) for j in range(sym.concretize(sym.int(_fresh(tag + ".n"), 0, 2)))])


def _json_leg(serial_root_model, cls):
    """Concrete replay only: through pydantic's JSON text and back."""
    text = serial_root_model.model_dump_json()
    return cls.model_validate_json(text)


# ---------------------------------------------------------------------------
@lemma("C05", params=[(k,) for k in range(N_LEAF + 5)],
       unbounded="all string and integer leaves (names, ids, extension ids, variable indices, nat arguments); bounds symbolic",
       bounds="one task per outermost type kind; nesting depth 1; rows of <= 1 (quick) / 2 (thorough) types",
       outside="deeper nesting", opts={"max_paths": 200000, "timeout_s": 2000, "optional_clauses": ["sugar_type_equals_general_sum"]})
def type_roundtrip(kind):
    _n[0] = 0
    depth = P(1, 1)   # (rows of <= 1 element quick / <= 2 thorough; depth 2 multiplies to ~10^9 expressions)
    if kind < N_LEAF:
        t = leaf_type(kind)
    else:
        k = kind - N_LEAF
        if k == 0:
            t = tys.FunctionType(row("in", depth - 1), row("out", depth - 1), [S("req")])
        elif k == 1:
            t = tys.Sum([row(f"v{j}", depth - 1) for j in range(sym.concretize(sym.int("nv", 0, 2)))])
        elif k == 2:
            t = tys.Tuple(*row("t", depth - 1))
        elif k == 3:
            t = tys.Option(*row("o", depth - 1))
        else:
            t = tys.Either(row("l", depth - 1, 1), row("r", depth - 1, 1))
    s = t._to_serial_root()
    if not sym.symbolic():
        s = _json_leg(s, stys.Type)
    back = s.deserialize()
    sym.check("decoded_type_equal", back == t)
    sym.check("decoded_type_same_document", deep_eq(dump(back._to_serial_root()), dump(t._to_serial_root())))
    sym.check("decoded_type_same_bound", back.type_bound() == t.type_bound())
    if isinstance(t, tys.Sum):
        general = tys.Sum([list(r) for r in t.variant_rows])
        sym.check("sugar_type_equals_general_sum", general == t and t == general and general.type_bound() == t.type_bound())


@lemma("C05", unbounded="string / integer leaves", bounds="type parameters and type arguments of nesting depth <= 1 (quick) / 2 (thorough)",
       opts={"max_paths": 200000, "timeout_s": 2000})
def param_and_arg_roundtrip():
    _n[0] = 0
    if sym.concretize(sym.bool("param")):
        p = some_param("p", P(1, 2))
        s = p._to_serial_root()
        if not sym.symbolic():
            s = _json_leg(s, stys.TypeParam)
        back = s.deserialize()
        sym.check("decoded_param_equal", back == p)
        sym.check("decoded_param_same_document", deep_eq(dump(back._to_serial_root()), dump(p._to_serial_root())))
    else:
        a = some_arg("a", P(1, 2))
        s = a._to_serial_root()
        if not sym.symbolic():
            s = _json_leg(s, stys.TypeArg)
        back = s.deserialize()
        sym.check("decoded_arg_equal", back == a)
        sym.check("decoded_arg_same_document", deep_eq(dump(back._to_serial_root()), dump(a._to_serial_root())))


# ---------------------------------------------------------------------------
def some_value(tag, depth):
    k = sym.concretize(sym.int(_fresh(tag + ".kind"), 0, 8 if depth > 0 else 3))
    if k == 0:
        n = sym.concretize(sym.int(_fresh(tag + ".size"), 1, 3))
        return val.UnitSum(sym.concretize(sym.int(_fresh(tag + ".tag"), 0, n - 1)), n)
    if k == 1:
        return val.bool_value(sym.concretize(sym.bool(_fresh(tag + ".b"))))
    if k == 2:
        return val.Extension(S("ext.name"), tys.Opaque(S("ext.ty"), Bd("ext.b"), [], S("ext.ext")), {"payload": I("ext.v"), "s": S("ext.s")}, [S("ext.req")])
    if k == 3:
        return val.None_(*[leaf_type(sym.concretize(sym.int(_fresh(tag + ".t"), 0, 2)))])
    vs = [some_value(f"{tag}.{j}", depth - 1) for j in range(sym.concretize(sym.int(_fresh(tag + ".n"), 0, 2)))]
    if k == 4:
        return val.Tuple(*vs)
    if k == 5:
        return val.Some(*vs)
    if k == 6:
        return val.Left(vs, [tys.Qubit])
    if k == 7:
        return val.Right([tys.Qubit], vs)
    tag_i = I("sum.tag", 0, 1)
    return val.Sum(tag_i, tys.Sum([[v.type_() for v in vs], [v.type_() for v in vs]]), vs)


@lemma("C05", unbounded="string / integer leaves of extension constants; the tag of a general sum value",
       bounds="values of nesting depth <= 1, <= 2 fields per level", opts={"max_paths": 200000, "timeout_s": 2000})
def value_roundtrip():
    _n[0] = 0
    v = some_value("v", P(1, 1))
    s = v._to_serial_root()
    if not sym.symbolic():
        s = _json_leg(s, sops.Value)
    back = s.deserialize()
    sym.check("decoded_value_equal", back == v)
    sym.check("decoded_value_same_type", back.type_() == v.type_())
    sym.check("decoded_value_same_document", deep_eq(dump(back._to_serial_root()), dump(v._to_serial_root())))
    if isinstance(v, val.Sum):
        general = val.Sum(v.tag, tys.Sum([list(r) for r in v.typ.variant_rows]), list(v.vals))
        sym.check("sugar_value_equals_general_sum", general == v and v == general and general.type_() == v.type_())


@lemma("C05", bounds="function-valued constants whose body is one of 3 template HUGRs (via the JSON text leg, concretely)")
def function_value_roundtrip():
    from vrf.harness import programs
    from hugr.build.dfg import Dfg
    k = sym.concretize(sym.int("body", 0, 2))
    if k == 0:
        d = Dfg(tys.Bool)
        d.set_outputs(*d.inputs())
        body = d.hugr
    elif k == 1:
        d = Dfg(tys.Qubit, tys.Bool)
        n = d.add_op(programs.cust("x", [tys.Bool], [tys.Bool]), d.inputs()[1], metadata={"inner": ["meta", 1]})
        d.set_outputs(d.inputs()[0], n[0])
        d.hugr[d.hugr.root].metadata["root_note"] = "ü"
        body = d.hugr
    else:
        d = Dfg()
        d.set_outputs(d.load(val.TRUE))
        body = d.hugr
    v = val.Function(body)
    text = v._to_serial_root().model_dump_json()
    back = sops.Value.model_validate_json(text).deserialize()
    sym.check("function_value_kind", isinstance(back, val.Function))
    sym.check("function_value_same_signature", back.type_() == v.type_())
    sym.check("function_value_same_document", json.loads(back._to_serial_root().model_dump_json()) == json.loads(text))


# ---------------------------------------------------------------------------
def _one(tag):
    return [tys.Opaque(S(f"{tag}.id"), Bd(f"{tag}.b"), [], "atoms")]


def _poly(tag, fixed_rows=False):
    params = [some_param(tag + f".p{j}", 0) for j in range(sym.concretize(sym.int(_fresh(tag + ".np"), 0, 1)))]
    if fixed_rows:
        return tys.PolyFuncType(params, tys.FunctionType(_one(tag + ".i"), _one(tag + ".o"), [S("reqs")]))
    return tys.PolyFuncType(params, tys.FunctionType(atom_row(tag + ".i", 1), atom_row(tag + ".o", 1), [S("reqs")]))


def make_op(kind):
    """(op, list of attribute names to compare) for each of the 21 serialised operation kinds (+ wrappers)."""
    if kind == "Module":
        return ops.Module()
    if kind == "Case":
        return ops.Case(atom_row("i"), atom_row("o"))
    if kind == "FuncDefn":
        return ops.FuncDefn(S("name"), atom_row("i", 1), [some_param(f"p{j}", 0) for j in range(sym.concretize(sym.int("np", 0, 2)))], atom_row("o", 1))
    if kind == "FuncDecl":
        return ops.FuncDecl(S("name"), _poly("sig"))
    if kind == "Const":
        return ops.Const(some_value("c", 1))
    if kind == "DataflowBlock":
        rows = [atom_row(f"v{j}", 1) for j in range(sym.concretize(sym.int("nv", 0, 2)))]
        return ops.DataflowBlock(atom_row("i"), tys.Sum(rows), atom_row("x", 1), _delta())
    if kind == "ExitBlock":
        return ops.ExitBlock(atom_row("o"))
    if kind == "Conditional":
        rows = [atom_row(f"v{j}", 1) for j in range(sym.concretize(sym.int("nv", 0, 2)))]
        return ops.Conditional(tys.Sum(rows), atom_row("x", 1), atom_row("o", 1))
    if kind == "TailLoop":
        return ops.TailLoop(atom_row("ji", 1), atom_row("r", 1), atom_row("jo", 1), _delta())
    if kind == "CFG":
        return ops.CFG(atom_row("i"), atom_row("o"))
    if kind == "Input":
        return ops.Input(atom_row("t"))
    if kind == "Output":
        return ops.Output(atom_row("t"))
    if kind == "Call":
        sig = _poly("sig", True)
        return ops.Call(sig, tys.FunctionType(atom_row("ii", 1), _one("io")), [some_arg(f"a{j}", 0) for j in range(len(sig.params))])
    if kind == "CallIndirect":
        return ops.CallIndirect(tys.FunctionType(atom_row("i", 1), atom_row("o", 1), [S("req")]))
    if kind == "LoadConstant":
        return ops.LoadConst(some_type("t", 1))
    if kind == "LoadFunction":
        sig = _poly("sig", True)
        return ops.LoadFunc(sig, tys.FunctionType(atom_row("ii", 1), _one("io")), [some_arg(f"a{j}", 0) for j in range(len(sig.params))])
    if kind == "Extension":
        return ops.Custom(S("op_name"), tys.FunctionType(atom_row("i", 1), atom_row("o", 1), [S("req")]), S("description"), S("extension"),
                          [some_arg(f"a{j}", 0) for j in range(sym.concretize(sym.int("na", 0, 1)))])
    if kind == "Tag":
        rows = [atom_row(f"v{j}", 1) for j in range(sym.concretize(sym.int("nv", 1, 3)))]
        return ops.Tag(I("tag", 0, len(rows) - 1), tys.Sum(rows))
    if kind == "DFG":
        return ops.DFG(atom_row("i"), atom_row("o"), _delta())
    if kind == "AliasDecl":
        return ops.AliasDecl(S("alias"), Bd("bound"))
    if kind == "AliasDefn":
        return ops.AliasDefn(S("alias"), some_type("def", 1))
    raise ValueError(kind)


OP_KINDS = ["Module", "Case", "FuncDefn", "FuncDecl", "Const", "DataflowBlock", "ExitBlock", "Conditional", "TailLoop", "CFG", "Input",
            "Output", "Call", "CallIndirect", "LoadConstant", "LoadFunction", "Extension", "Tag", "DFG", "AliasDecl", "AliasDefn"]


def _same_op(a, b):
    """Attribute-by-attribute equality (dataclass fields; Custom compares by identity otherwise)."""
    import dataclasses
    if type(a) is not type(b):
        return False
    r = True
    for f in dataclasses.fields(a):
        if f.name == "num_out":
            continue
        r = sym.and_(r, getattr(a, f.name) == getattr(b, f.name))
    return r


def _ports_agree(a, b):
    n = Node(3)
    r = True
    for port in (OutPort(n, 0), InPort(n, 0), OutPort(n, 1), InPort(n, 1), OutPort(n, -1), InPort(n, -1)):
        try:
            ka = a.port_kind(port)
        except Exception as e:  # noqa: BLE001
            ka = type(e).__name__
        try:
            kb = b.port_kind(port)
        except Exception as e:  # noqa: BLE001
            kb = type(e).__name__
        r = sym.and_(r, ka == kb)
    return r


@lemma("C05", params=[(k,) for k in OP_KINDS],
       unbounded="all string / integer leaves (names, descriptions, extension ids, deltas, tags, indices); bounds symbolic",
       bounds="one task per serialised operation kind (all 21); rows of <= 2 atoms with symbolic names, <= 2 type params/args of depth <= 1",
       outside="longer rows", opts={"max_paths": 200000, "timeout_s": 2000,
                                    "optional_clauses": ["decoded_op_same_signature", "decoded_op_same_inner_signature"]})
def op_roundtrip(kind):
    _n[0] = 0
    x = make_op(kind)
    parent = Node(I("parent", 0, None))
    s = x._to_serial(parent)
    if not sym.symbolic():
        s = _json_leg(sops.OpType(root=s), sops.OpType).root
    sym.check("encodes_as_its_kind", s.op == kind and s.parent == parent.idx)
    y = s.deserialize()
    sym.check("decoded_op_equal_attribute_by_attribute", _same_op(x, y))
    sym.check("decoded_op_same_document", deep_eq(dump(y._to_serial(parent)), dump(x._to_serial(parent))))
    sym.check("decoded_op_same_output_count", y.num_out == x.num_out)
    sym.check("decoded_op_same_port_kinds", _ports_agree(x, y))
    if isinstance(x, ops.DataflowOp):
        sym.check("decoded_op_same_signature", y.outer_signature() == x.outer_signature())
    if isinstance(x, ops.DfParentOp):
        sym.check("decoded_op_same_inner_signature", y.inner_signature() == x.inner_signature())


@lemma("C05", bounds="extension operations MakeTuple / UnpackTuple / Noop over rows of <= 2 atoms, and an ExtOp of a user extension with a "
                     "description and type arguments: come back as opaque operations with the same extension, name, signature, args and description")
def ext_op_roundtrip():
    _n[0] = 0
    from hugr import ext
    k = sym.concretize(sym.int("which", 0, 3))
    r = atom_row("t", 2)
    if k == 0:
        x = ops.MakeTuple(r)
    elif k == 1:
        x = ops.UnpackTuple(r)
    elif k == 2:
        x = ops.Noop(leaf_type(sym.concretize(sym.int("t", 0, N_LEAF - 1))))
    else:
        e = ext.Extension("my.ext", ext.Version(0, 1, 0))
        od = e.add_op_def(ext.OpDef("MyOp", ext.OpDefSig(tys.FunctionType(r, r)), "described"))
        x = od.instantiate([tys.BoundedNatArg(I("n"))], tys.FunctionType(r, r))
    s = x._to_serial(Node(1))
    if not sym.symbolic():
        s = _json_leg(sops.OpType(root=s), sops.OpType).root
    y = s.deserialize()
    cu = x.ext_op.to_custom_op()
    sym.check("ext_op_decodes_to_opaque_op", isinstance(y, ops.Custom))
    sym.check("ext_op_same_extension_and_name", sym.and_(y.extension == cu.extension, y.op_name == cu.op_name))
    sym.check("ext_op_same_signature", y.signature == cu.signature and y.outer_signature() == x.outer_signature())
    sym.check("ext_op_same_args", y.args == cu.args)
    sym.check("ext_op_same_description", y.description == cu.description)
    sym.check("ext_op_same_document", deep_eq(dump(y._to_serial(Node(1))), dump(x._to_serial(Node(1)))))
    sym.check("ext_op_same_output_count", y.num_out == x.num_out)


# ---------------------------------------------------------------------------
# L4: documents written the way hugr-core writes them
# ---------------------------------------------------------------------------
from vrf.lemma import native  # noqa: E402


@native
def _foreign_doc(poly, with_delta, with_desc, n_order, null_offsets, with_meta):
    """A schema-valid module document in hugr-core's conventions: state-order edges between dataflow
    nodes carry no port offset, function definitions may be polymorphic, metadata is a list."""
    Bt = {"t": "Sum", "s": "Unit", "size": 2}
    Qt = {"t": "Q"}
    var = {"t": "V", "i": 0, "b": "A"}
    fsig_body = {"t": "G", "input": [var if poly else Qt, Bt], "output": [var if poly else Qt], "runtime_reqs": []}
    params = [{"tp": "Type", "b": "A"}] if poly else []
    opq = {"t": "Opaque", "extension": "arithmetic.int.types", "id": "int", "args": [{"tya": "BoundedNat", "n": 5}], "bound": "C"}
    nodes = [
        {"parent": 0, "op": "Module"},
        {"parent": 0, "op": "FuncDefn", "name": "main", "signature": {"params": params, "body": fsig_body}},
        {"parent": 1, "op": "Input", "types": fsig_body["input"]},
        {"parent": 1, "op": "Output", "types": fsig_body["output"]},
        {"parent": 1, "op": "Extension", "extension": "my.ext", "name": "Op", "signature": {"t": "G", "input": [Bt], "output": [Bt, opq], "runtime_reqs": ["my.ext"]},
         "description": "does things" if with_desc else "", "args": [{"tya": "Type", "ty": opq}, {"tya": "String", "arg": "s"}]},
        {"parent": 1, "op": "Tag", "tag": 1, "variants": [[], [Bt]]},
        {"parent": 1, "op": "Const", "v": {"v": "Sum", "tag": 1, "typ": {"t": "Sum", "s": "General", "rows": [[Qt], [Bt, Bt]]}, "vs": [
            {"v": "Sum", "tag": 1, "typ": Bt, "vs": []}, {"v": "Sum", "tag": 0, "typ": Bt, "vs": []}]}},
        {"parent": 1, "op": "LoadConstant", "datatype": {"t": "Sum", "s": "General", "rows": [[Qt], [Bt, Bt]]}},
        {"parent": 0, "op": "FuncDecl", "name": "decl", "signature": {"params": [{"tp": "BoundedNat", "bound": None}], "body": {"t": "G", "input": [], "output": [Bt], "runtime_reqs": []}}},
        {"parent": 1, "op": "Call", "func_sig": {"params": [{"tp": "BoundedNat", "bound": None}], "body": {"t": "G", "input": [], "output": [Bt], "runtime_reqs": []}},
         "type_args": [{"tya": "BoundedNat", "n": 3}], "instantiation": {"t": "G", "input": [], "output": [Bt], "runtime_reqs": []}},
        {"parent": 1, "op": "CFG", "signature": {"t": "G", "input": [Bt], "output": [Bt], "runtime_reqs": []}},
        {"parent": 10, "op": "DataflowBlock", "inputs": [Bt], "other_outputs": [Bt], "sum_rows": [[]], "extension_delta": ["my.ext"] if with_delta else []},
        {"parent": 11, "op": "Input", "types": [Bt]},
        {"parent": 11, "op": "Output", "types": [{"t": "Sum", "s": "Unit", "size": 1}, Bt]},
        {"parent": 11, "op": "Const", "v": {"v": "Sum", "tag": 0, "typ": {"t": "Sum", "s": "Unit", "size": 1}, "vs": []}},
        {"parent": 11, "op": "LoadConstant", "datatype": {"t": "Sum", "s": "Unit", "size": 1}},
        {"parent": 10, "op": "ExitBlock", "cfg_outputs": [Bt]},
        {"parent": 0, "op": "FuncDecl", "name": "f2", "signature": {"params": [], "body": {"t": "G", "input": [Bt], "output": [Bt], "runtime_reqs": []}}},
        {"parent": 1, "op": "LoadFunction", "func_sig": {"params": [], "body": {"t": "G", "input": [Bt], "output": [Bt], "runtime_reqs": []}},
         "type_args": [], "instantiation": {"t": "G", "input": [Bt], "output": [Bt], "runtime_reqs": []}},
        {"parent": 1, "op": "CallIndirect", "signature": {"t": "G", "input": [Bt], "output": [Bt], "runtime_reqs": []}},
    ]
    edges = [
        [[2, 1], [4, 0]], [[4, 0], [5, 0]], [[2, 0], [3, 0]],
        [[6, 0], [7, 0]],
        [[8, 0], [9, 0]], [[9, 0], [10, 0]],
        [[12, 0], [13, 1]], [[14, 0], [15, 0]], [[15, 0], [13, 0]], [[11, 0], [16, 0]],
        [[17, 0], [18, 0]], [[18, 0], [19, 0]], [[4, 0], [19, 1]],
    ]
    # state-order edges between dataflow siblings: Input->Ext op, Ext op->Tag, Call->CFG
    order = [(2, 4, 2, 1), (4, 5, 2, 1), (9, 10, 1, 1), (4, 19, 2, 2), (18, 19, 1, 2)][:n_order]   # (src, dst, src other-port index, dst other-port index)
    for (a, b, oa, ob) in order:
        edges.append([[a, None], [b, None]] if null_offsets else [[a, oa], [b, ob]])
    md = None
    if with_meta:
        md = [None] * len(nodes)
        md[1] = {"name": "entry ✓", "n": [1, 2, {"x": None}]}
        md[4] = {"k": "v"}
    doc = {"version": "live", "nodes": nodes, "edges": edges, "metadata": md, "encoder": "hugr-rs v0.0.0"}
    if md is None:
        del doc["metadata"]
    return doc, order


@native
def _norm_edges(edges, order):
    other = {}
    for (a, b, oa, ob) in order:
        other[(a, "out")] = oa
        other[(b, "in")] = ob
    out = []
    for (s, so), (d, do) in edges:
        so = other.get((s, "out")) if so is None else so
        do = other.get((d, "in")) if do is None else do
        out.append((s, so, d, do))
    return sorted(out, key=repr)


@lemma("C05", bounds="a 20-node module document in hugr-core's conventions (polymorphic FuncDefn, Call with type args, extension op with description "
                     "and args, opaque types, nested sum constants, CFG with a block carrying an extension delta, LoadFunction + CallIndirect) with symbolic variations: "
                     "polymorphic or not, delta / description / metadata present or not, 0..5 state-order edges (into / out of extension ops, Tag, Call, CFG, LoadFunction, CallIndirect) written with null or explicit offsets",
       outside="other foreign documents; documents with null offsets on non-dataflow nodes")
def foreign_document_resave():
    from vrf.harness.c03 import strict_schema_ok
    poly = sym.concretize(sym.bool("polymorphic"))
    delta = sym.concretize(sym.bool("delta"))
    desc = sym.concretize(sym.bool("description"))
    n_order = sym.concretize(sym.int("order_edges", 0, 5))
    nulls = sym.concretize(sym.bool("null_offsets"))
    meta = sym.concretize(sym.bool("metadata"))
    doc, order = _foreign_doc(poly, delta, desc, n_order, nulls, meta)
    sym.check("input_document_is_schema_valid", strict_schema_ok(doc))
    h = Hugr.load_json(json.dumps(doc))
    out = json.loads(h.to_json())
    sym.check("resaved_document_is_schema_valid", strict_schema_ok(out))
    sym.check("every_node_kept_with_kind_and_parent", [(n["op"], n["parent"]) for n in out["nodes"]] == [(n["op"], n["parent"]) for n in doc["nodes"]])
    ok = True
    for a, b in zip(doc["nodes"], out["nodes"]):
        for k, v in a.items():
            if k == "extension_delta" and not v and k not in b:
                continue
            ok = ok and b.get(k) == v
    sym.check("names_types_params_args_payloads_kept", ok)
    sym.check("every_edge_kept_including_state_order_edges", _norm_edges(out["edges"], order) == _norm_edges(doc["edges"], order))
    sym.check("order_edges_visible_as_order_links", sum(len(list(h.outgoing_order_links(n))) for n in h) == n_order)
    want_md = doc.get("metadata") or [None] * len(doc["nodes"])
    got_md = out.get("metadata") or [None] * len(doc["nodes"])
    sym.check("metadata_kept", [m or None for m in got_md] == [m or None for m in want_md])
    out2 = json.loads(Hugr.load_json(json.dumps(out)).to_json())
    sym.check("resave_is_a_fixed_point", out2 == out)
