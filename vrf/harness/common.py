"""Shared harness helpers: observable structure of a Hugr store."""
from hugr.hugr.node_port import Direction


def structure(h):
    """Observable structure through public queries only."""
    nodes = []
    for n in h:
        d = h[n]
        nodes.append((n.idx, d.op, d.parent.idx if d.parent is not None else None, [c.idx for c in h.children(n)],
                      dict(d.metadata), h.num_ports(n, Direction.OUTGOING), h.num_ports(n, Direction.INCOMING)))
    links = sorted(((s.node.idx, s.offset, t.node.idx, t.offset) for s, t in h.links()))
    return nodes, links


def same_structure(h1, h2, counts=True):
    n1, l1 = structure(h1)
    n2, l2 = structure(h2)
    if len(n1) != len(n2) or l1 != l2:
        return False
    for a, b in zip(n1, n2):
        if a[0] != b[0] or a[2] != b[2] or a[3] != b[3] or a[4] != b[4]:
            return False
        if not (a[1] is b[1] or a[1] == b[1]):
            return False
        if counts and (a[5] != b[5] or a[6] != b[6]):
            return False
    return True


def port_lists(h):
    """Per-port ordered link lists from both ends (order within a port is observable)."""
    out = {}
    for n in h:
        for o in range(-1, h.num_ports(n, Direction.OUTGOING)):
            lp = [(p.node.idx, p.offset) for p in h.linked_ports(n.out(o))]
            if lp:
                out[("out", n.idx, o)] = lp
        for o in range(-1, h.num_ports(n, Direction.INCOMING)):
            lp = [(p.node.idx, p.offset) for p in h.linked_ports(n.inp(o))]
            if lp:
                out[("in", n.idx, o)] = lp
    return out
