"""C07 — a type is reported copyable only if all of its constituents are.

Bounds of leaf constituents are symbolic enum values (SymEnum over TypeBound), so one path
covers all assignments of Copyable/Any to the leaves; shapes (row counts, row lengths,
nesting) are enumerated by the solver within the stated bounds.
"""
from hugr import ext, tys
from hugr.tys import TypeBound

from vrf.lemma import P, lemma
from vrf.symx import sym

ANY, COPY = TypeBound.Any, TypeBound.Copyable


def _is_any(b):
    return b == ANY


@lemma("C07", bounds="sequences of 0..6 bounds (quick) / 0..10 (thorough), every bound symbolic",
       outside="longer argument lists (the loop body is independent of position)")
def join_is_least_upper_bound():
    k = sym.concretize(sym.int("k", 0, P(6, 10)))
    bs = [sym.enum(f"b{i}", TypeBound) for i in range(k)]
    r = TypeBound.join(*bs)
    want_any = sym.or_(*[_is_any(b) for b in bs]) if bs else False
    sym.check("join_any_iff_some_any", sym.iff(_is_any(r), want_any))
    sym.check("join_copyable_otherwise", sym.iff(r == COPY, sym.not_(want_any)))


def _leaf(tag, kinds):
    """A type with a symbolic or fixed bound -> (type, 'is Any' condition)."""
    kind = kinds[sym.concretize(sym.int(f"{tag}.kind", 0, len(kinds) - 1))]
    if kind == 0:
        b = sym.enum(f"{tag}.b", TypeBound)
        return tys.Variable(0, b), _is_any(b)
    if kind == 1:
        b = sym.enum(f"{tag}.b", TypeBound)
        return tys.Alias("al", b), _is_any(b)
    if kind == 2:
        b = sym.enum(f"{tag}.b", TypeBound)
        return tys.Opaque("op", b, [], "ext"), _is_any(b)
    if kind == 3:
        b = sym.enum(f"{tag}.b", TypeBound)
        return tys.RowVariable(1, b), _is_any(b)
    if kind == 4:
        return tys.Qubit, True
    if kind == 5:
        return tys.Bool, False
    if kind == 6:
        return tys.USize(), False
    if kind == 7:
        # function types are copyable whatever they mention
        return tys.FunctionType([tys.Qubit], [tys.Qubit]), False
    # polymorphic function type: copyable
    return tys.PolyFuncType([tys.TypeTypeParam(ANY)], tys.FunctionType([tys.Variable(0, ANY)], [])), False


def _sum(tag, form, kinds, maxlen, nested_first=False):
    """A sum in one of the five spellings -> (type, 'some constituent is Any').
    nested_first: the first element of the first non-empty row is itself a sum (any spelling)."""
    if form is None:
        form = sym.concretize(sym.int(f"{tag}.form", 0, 4))
    nrows = sym.concretize(sym.int(f"{tag}.rows", 0, 2)) if form == 0 else (1 if form == 1 else 2)
    if form == 4:
        n = sym.concretize(sym.int(f"{tag}.n", 0, 3))
        return tys.UnitSum(n), False
    rows, anys = [], []
    placed = not nested_first
    for r in range(nrows):
        if form == 2 and r == 0:
            rows.append([])
            continue
        ln = sym.concretize(sym.int(f"{tag}.len{r}", 0, maxlen))
        row = []
        for j in range(ln):
            if not placed:
                placed = True
                t, a = _sum(f"{tag}.in", None, [0, 4, 5], 1)
            else:
                t, a = _leaf(f"{tag}.{r}.{j}", kinds)
            row.append(t)
            anys.append(a)
        rows.append(row)
    if form == 0:
        t = tys.Sum(rows)
    elif form == 1:
        t = tys.Tuple(*rows[0])
    elif form == 2:
        t = tys.Option(*rows[1])
    else:
        t = tys.Either(rows[0], rows[1])
    return t, (sym.or_(*anys) if anys else False)


@lemma("C07", params=[(f, m) for f in range(4) for m in (0, 1)] + [(4, 0)],
       bounds="per sum spelling (0 general, 1 Tuple, 2 Option, 3 Either, 4 UnitSum) and mode. mode 0: <= 2 rows of <= 2 elements, leaves from 5 kinds "
              "(quick: Variable/Opaque with symbolic bound, Qubit, Bool, FunctionType) / 9 kinds (thorough: + Alias, RowVariable, USize, PolyFuncType). "
              "mode 1: the first element is itself a sum (any of the five spellings, <= 2 rows of <= 1 element from Variable/Qubit/Bool), remaining "
              "elements from Variable/Qubit/Bool (quick: rows of <= 1 element; thorough: <= 2); all leaf bounds symbolic",
       outside="wider/deeper type expressions", opts={"max_paths": 400000, "timeout_s": 3000})
def sum_bound_is_join_of_constituents(form, mode):
    if mode == 0:
        t, want_any = _sum("t", form, P([0, 2, 4, 5, 7], [0, 1, 2, 3, 4, 5, 6, 7, 9]), 2)
    else:
        t, want_any = _sum("t", form, [0, 4, 5], P(1, 2), nested_first=True)
    b = t.type_bound()
    sym.check("sum_any_iff_some_constituent_any", sym.iff(_is_any(b), want_any))
    sym.check("sum_bound_is_a_bound", sym.or_(b == ANY, b == COPY))


@lemma("C07", bounds="fixed facts named by the statement")
def fixed_bounds():
    if True:
        sym.check("empty_sum_copyable", tys.Sum([]).type_bound() == COPY)
        sym.check("unit_bool_copyable", sym.and_(tys.Unit.type_bound() == COPY, tys.Bool.type_bound() == COPY))
        sym.check("qubit_linear", tys.Qubit.type_bound() == ANY)
        sym.check("function_types_copyable", sym.and_(tys.FunctionType([tys.Qubit], [tys.Qubit]).type_bound() == COPY,
                                                      tys.PolyFuncType([], tys.FunctionType.empty()).type_bound() == COPY))


@lemma("C07", unbounded="declared bound (symbolic)", bounds="the four declared-bound type classes")
def declared_bound_reported():
    b = sym.enum("b", TypeBound)
    for t in (tys.Variable(3, b), tys.RowVariable(2, b), tys.Alias("x", b), tys.Opaque("o", b, [tys.BoundedNatArg(3)], "e")):
        sym.check("declared_bound", t.type_bound() == b)


def _ext():
    e = ext.Extension("my.ext", ext.Version(0, 1, 0))
    return e


@lemma("C07", bounds="type definitions with 0..3 parameters; from-params index lists of length 0..3 with arbitrary in-range entries "
                     "(repeats allowed); arguments are type args of symbolic bound or nat args",
       outside="longer parameter lists")
def ext_type_bound():
    e = _ext()
    nargs = sym.concretize(sym.int("nargs", 0, 3))
    args, anys, is_type = [], [], []
    for i in range(nargs):
        if sym.concretize(sym.bool(f"arg{i}.is_type")):
            b = sym.enum(f"arg{i}.b", TypeBound)
            args.append(tys.TypeTypeArg(tys.Variable(i, b)))
            anys.append(_is_any(b))
            is_type.append(True)
        else:
            args.append(tys.BoundedNatArg(i))
            anys.append(False)
            is_type.append(False)
    params = [tys.TypeTypeParam(ANY) if t else tys.BoundedNatParam() for t in is_type]
    if sym.concretize(sym.bool("explicit")):
        db = sym.enum("declared", TypeBound)
        td = e.add_type_def(ext.TypeDef("T", "d", params, ext.ExplicitBound(db)))
        want_any = _is_any(db)
    else:
        sym.assume(nargs >= 1)
        ni = sym.concretize(sym.int("nidx", 0, 3))
        idxs = [sym.int(f"idx{j}", 0, nargs - 1) for j in range(ni)]
        td = e.add_type_def(ext.TypeDef("T", "d", params, ext.FromParamsBound(idxs)))
        want_any = sym.or_(*[sym.or_(*[sym.and_(ix == i, anys[i]) for i in range(nargs)]) for ix in idxs]) if idxs else False
    t = td.instantiate(args)
    b = t.type_bound()
    sym.check("ext_bound_any_iff_named_type_arg_any", sym.iff(_is_any(b), want_any))
    # a second instantiation of the SAME definition whose arguments look alike but carry the opposite bounds
    if not isinstance(td.bound, ext.ExplicitBound):
        args2, anys2 = [], []
        for i in range(nargs):
            if is_type[i]:
                b2 = sym.enum(f"arg{i}.b2", TypeBound)
                args2.append(tys.TypeTypeArg(tys.Variable(i, b2)))
                anys2.append(_is_any(b2))
            else:
                args2.append(tys.BoundedNatArg(i))
                anys2.append(False)
        want2 = sym.or_(*[sym.or_(*[sym.and_(ix == i, anys2[i]) for i in range(nargs)]) for ix in idxs]) if idxs else False
        sym.check("second_instantiation_reports_its_own_bound", sym.iff(_is_any(td.instantiate(args2).type_bound()), want2))
    op = t._to_opaque()
    sym.check("opaque_form_carries_computed_bound", op.bound == b)
    sym.check("opaque_type_bound_same", op.type_bound() == b)


def _elem(tag):
    kind = sym.concretize(sym.int(f"{tag}.kind", 0, 5))
    if kind == 0:
        b = sym.enum(f"{tag}.b", TypeBound)
        return tys.Variable(0, b), _is_any(b)
    if kind == 1:
        b = sym.enum(f"{tag}.b", TypeBound)
        return tys.Opaque("op", b, [], "ext"), _is_any(b)
    if kind == 2:
        return tys.Qubit, True
    if kind == 3:
        return tys.Bool, False
    if kind == 4:
        b = sym.enum(f"{tag}.b", TypeBound)
        return tys.Tuple(tys.Bool, tys.Alias("a", b)), _is_any(b)
    return tys.FunctionType([tys.Qubit], []), False


@lemma("C07", bounds="element types from 6 shapes with symbolic bounds; array sizes 0..3", outside="other element shapes")
def std_containers():
    from hugr.std.collections.array import Array
    from hugr.std.collections.list import List
    from hugr.std.collections.static_array import StaticArray
    el, el_any = _elem("el")
    which = sym.concretize(sym.int("which", 0, 2))
    if which == 0:
        t = Array(el, sym.concretize(sym.int("n", 0, 3)))
        sym.check("array_bound_is_element_bound", sym.iff(_is_any(t.type_bound()), el_any))
        sym.check("array_opaque_bound", sym.iff(_is_any(t._to_opaque().bound), el_any))
    elif which == 1:
        t = List(el)
        sym.check("list_bound_is_element_bound", sym.iff(_is_any(t.type_bound()), el_any))
        sym.check("list_opaque_bound", sym.iff(_is_any(t._to_opaque().bound), el_any))
    else:
        try:
            t = StaticArray(el)
            ok = True
        except ValueError:
            ok = False
        sym.check("static_array_rejects_iff_linear", sym.iff(ok, sym.not_(el_any)))
        if ok:
            sym.check("static_array_copyable", t.type_bound() == COPY)
