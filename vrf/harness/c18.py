"""C18 — BiMap stays a bijection.

Two families:
* `*_step` (finite universe): arbitrary bijection over a 4-atom universe (falsy atoms 0 and ""
  included) with <= 3 pairs, built through the public constructor, then ONE operation with
  arbitrary arguments; result compared with the mathematical model (displace exactly / delete
  exactly / KeyError iff absent).  One inductive step from every valid state covers histories of
  any length as far as the universe/size bound reaches.
* `*_step_unbounded`: the maps are z3 arrays of unbounded size with arbitrary integer keys/values
  (0 is the falsy one); the bijection invariant is instantiated at every index read; post-conditions
  are checked at skolem indices.  No bound on size, keys or values.
"""
from hugr.utils import BiMap, NotBijection

from vrf.lemma import P, lemma
from vrf.symx import sym, symmap

class _Atoms:
    """The 4-atom universe: two falsy singletons and two values that are rebuilt on every access, so that a key passed to an
    operation is EQUAL to the stored one but not the same object (ints outside the small-int cache, runtime-built tuples)."""

    def __len__(self):
        return 4

    def __getitem__(self, i):
        if i == 0:
            return 0
        if i == 1:
            return ""
        if i == 2:
            return int("100000") + 1
        if i == 3:
            return tuple([7, "a"])
        raise IndexError(i)

    def __iter__(self):
        return iter([self[i] for i in range(4)])


U = _Atoms()


def _state(maxpairs):
    """Arbitrary bijection over U with <= maxpairs pairs -> (BiMap, model dict)."""
    n = sym.int("n", 0, maxpairs)
    model = {}
    prev = -1
    used_v = []
    for j in range(sym.concretize(n)):
        ki = sym.int(f"k{j}", 0, len(U) - 1)
        vi = sym.int(f"v{j}", 0, len(U) - 1)
        sym.assume(ki > prev)  # symmetry breaking: keys in increasing universe order
        prev = ki
        for w in used_v:
            sym.assume(vi != w)
        used_v.append(vi)
        model[U[sym.concretize(ki)]] = U[sym.concretize(vi)]
    b = BiMap(dict(model))
    return b, model


def _inv(d):
    return {v: k for k, v in d.items()}


def _agree(b, model, tag):
    sym.check(f"{tag}:fwd_is_model", b.fwd == model)
    sym.check(f"{tag}:bck_is_inverse", b.bck == _inv(model))
    sym.check(f"{tag}:len", len(b) == len(model))
    sym.check(f"{tag}:iter", sorted(map(repr, b)) == sorted(map(repr, model)))
    sym.check(f"{tag}:items", sorted(map(repr, b.items())) == sorted(map(repr, model.items())))
    for a in U:
        sym.check(f"{tag}:get_right", b.get_right(a) == model.get(a))
        sym.check(f"{tag}:get_left", b.get_left(a) == _inv(model).get(a))


def _arg(name):
    return U[sym.concretize(sym.int(name, 0, len(U) - 1))]


@lemma("C18", bounds="universe of 4 atoms {0, '', 100001, (7,'a')} (the last two rebuilt on every access: equal but not identical objects), pre-state any bijection with <= 3 pairs (quick) / 4 (thorough)",
       outside="universes with more than 4 distinct atoms (covered by the *_unbounded variants for integer atoms)")
def insert_left_step():
    b, model = _state(P(3, 4))
    k, v = _arg("k"), _arg("v")
    b.insert_left(k, v)
    exp = {a: c for a, c in model.items() if a != k and c != v}
    exp[k] = v
    _agree(b, exp, "insert_left")


@lemma("C18", bounds="as insert_left_step")
def insert_right_step():
    b, model = _state(P(3, 4))
    k, v = _arg("k"), _arg("v")
    b.insert_right(v, k)
    exp = {a: c for a, c in model.items() if a != k and c != v}
    exp[k] = v
    _agree(b, exp, "insert_right")


@lemma("C18", bounds="as insert_left_step")
def setitem_step():
    b, model = _state(P(3, 4))
    k, v = _arg("k"), _arg("v")
    b[k] = v
    exp = {a: c for a, c in model.items() if a != k and c != v}
    exp[k] = v
    _agree(b, exp, "setitem")


def _delete(op, by_left):
    b, model = _state(P(3, 4))
    k = _arg("k")
    present = (k in model) if by_left else (k in _inv(model))
    try:
        op(b, k)
        raised = False
    except KeyError:
        raised = True
    sym.check("keyerror_iff_absent", raised == (not present))
    if by_left:
        exp = {a: c for a, c in model.items() if a != k}
    else:
        exp = {a: c for a, c in model.items() if c != k}
    _agree(b, exp, "delete")


@lemma("C18", bounds="as insert_left_step")
def delete_left_step():
    _delete(lambda b, k: b.delete_left(k), True)


@lemma("C18", bounds="as insert_left_step")
def delete_right_step():
    _delete(lambda b, k: b.delete_right(k), False)


@lemma("C18", bounds="as insert_left_step")
def delitem_step():
    def op(b, k):
        del b[k]
    _delete(op, True)


@lemma("C18", bounds="as insert_left_step")
def getitem_step():
    b, model = _state(P(3, 4))
    k = _arg("k")
    try:
        r = b[k]
        sym.check("getitem_value", k in model and model[k] == r)
    except KeyError:
        sym.check("getitem_keyerror_iff_absent", k not in model)
    _agree(b, model, "getitem_pure")


@lemma("C18", bounds="mappings with <= 3 entries (quick) / 4 (thorough) over the 4-atom universe, arbitrary (also non-injective)")
def init_rejects_non_injective():
    n = sym.int("n", 0, P(3, 4))
    d = {}
    prev = -1
    for j in range(sym.concretize(n)):
        ki = sym.int(f"k{j}", 0, len(U) - 1)
        vi = sym.int(f"v{j}", 0, len(U) - 1)
        sym.assume(ki > prev)
        prev = ki
        d[U[sym.concretize(ki)]] = U[sym.concretize(vi)]
    injective = len(set(map(repr, d.values()))) == len(d)
    try:
        b = BiMap(d)
        ok = True
    except NotBijection:
        ok = False
    sym.check("rejects_iff_non_injective", ok == injective)
    if ok:
        _agree(b, d, "init")


@lemma("C18", bounds="histories of 2 operations (quick) / 3 (thorough) from the empty map over atoms {0,'',1}; op kind, key and value symbolic",
       outside="longer histories (covered by the step lemmas: every reachable state is a bijection, and each step is checked from every bijection)")
def history():
    AT = [0, "", 1]
    b = BiMap()
    model = {}
    for s in range(P(2, 3)):
        op = sym.concretize(sym.int(f"op{s}", 0, 3))
        k = AT[sym.concretize(sym.int(f"a{s}", 0, 2))]
        v = AT[sym.concretize(sym.int(f"b{s}", 0, 2))]
        if op == 0:
            b.insert_left(k, v)
            model = {a: c for a, c in model.items() if a != k and c != v}
            model[k] = v
        elif op == 1:
            b.insert_right(v, k)
            model = {a: c for a, c in model.items() if a != k and c != v}
            model[k] = v
        elif op == 2:
            try:
                b.delete_left(k)
                sym.check("hist_delete_left_present", k in model)
            except KeyError:
                sym.check("hist_delete_left_absent", k not in model)
            model = {a: c for a, c in model.items() if a != k}
        else:
            try:
                b.delete_right(v)
                sym.check("hist_delete_right_present", v in _inv(model))
            except KeyError:
                sym.check("hist_delete_right_absent", v not in _inv(model))
            model = {a: c for a, c in model.items() if c != v}
        sym.check("hist_fwd", b.fwd == model)
        sym.check("hist_bck", b.bck == _inv(model))


# ---------------------------------------------------------------------------
# unbounded variants
# ---------------------------------------------------------------------------
def _sym_bimap():
    fwd = symmap.make("fwd")
    bck = symmap.make("bck")
    if sym.symbolic():
        import z3

        def inv_f(m, kt):  # fwd present at k  =>  bck[fwd[k]] == k (present)
            k = kt[0]
            w = m.base_val[0](k)
            _c = __import__("vrf.symx.ctx", fromlist=["cur"]).cur()
            _c.add(z3.Implies(m.base_present(k), z3.And(bck.base_has((w,)), bck.base_get((w,))[0] == k)))

        def inv_b(m, kt):
            k = kt[0]
            w = m.base_val[0](k)
            _c = __import__("vrf.symx.ctx", fromlist=["cur"]).cur()
            _c.add(z3.Implies(m.base_present(k), z3.And(fwd.base_has((w,)), fwd.base_get((w,))[0] == k)))

        fwd.on_read = inv_f
        bck.on_read = inv_b
        b = BiMap.__new__(BiMap)
        b.fwd = fwd
        b.bck = bck
        return b, fwd.snapshot(), bck.snapshot()
    b = BiMap(fwd)
    sym.assume(b.bck == bck)
    return b, dict(fwd), dict(bck)


def _has(m, k):
    return m.has(k) if sym.symbolic() else (k in m)


def _at(m, k):
    return m.at(k) if sym.symbolic() else m.get(k)


def _post_bijection(b, q, r):
    # forward view at skolem q, backward view at skolem r
    f, g = b.fwd, b.bck
    sym.check("post:fwd_has_inverse", sym.implies(_has(f, q), sym.and_(_has(g, _at(f, q)) if _has_val(f, q) else True,
                                                                       _eq_at(g, _at(f, q), q) if _has_val(f, q) else True)))
    sym.check("post:bck_has_inverse", sym.implies(_has(g, r), sym.and_(_has(f, _at(g, r)) if _has_val(g, r) else True,
                                                                       _eq_at(f, _at(g, r), r) if _has_val(g, r) else True)))


def _has_val(m, k):
    return True if sym.symbolic() else (k in m)


def _eq_at(m, k, expect):
    if sym.symbolic():
        return m.at(k) == expect
    return m.get(k) == expect


@lemma("C18", unbounded="map size, keys and values (all integers; 0 is the falsy atom)", bounds="none on values; one operation",
       outside="non-integer atoms (covered by the finite-universe variants)")
def insert_left_step_unbounded():
    b, f0, g0 = _sym_bimap()
    k, v = sym.int("k"), sym.int("v")
    q, r = sym.int("q"), sym.int("r")
    b.insert_left(k, v)
    _post_bijection(b, q, r)
    f = b.fwd
    # displaces exactly: q == k -> v ; q had value v -> gone ; else unchanged
    sym.check("post:inserted", sym.and_(_has(f, k), _eq_at(f, k, v)))
    old_has_q = _has(f0, q)
    old_q_is_v = sym.and_(old_has_q, _eq_at(f0, q, v)) if _has_val(f0, q) else False
    sym.check("post:displaces_exactly",
              sym.ite(q == k, True,
                      sym.ite(old_q_is_v, sym.not_(_has(f, q)),
                              sym.and_(sym.iff(_has(f, q), old_has_q),
                                       sym.implies(old_has_q, _eq_at(f, q, _at(f0, q)) if _has_val(f0, q) else True)))))


@lemma("C18", unbounded="map size, keys and values", bounds="none on values; one operation")
def delete_left_step_unbounded():
    b, f0, g0 = _sym_bimap()
    k = sym.int("k")
    q, r = sym.int("q"), sym.int("r")
    was = _has(f0, k)
    try:
        b.delete_left(k)
        raised = False
    except KeyError:
        raised = True
    sym.check("keyerror_iff_absent", sym.iff(raised, sym.not_(was)))
    _post_bijection(b, q, r)
    f = b.fwd
    sym.check("post:deletes_exactly",
              sym.ite(q == k, sym.not_(_has(f, q)),
                      sym.and_(sym.iff(_has(f, q), _has(f0, q)),
                               sym.implies(_has(f0, q), _eq_at(f, q, _at(f0, q)) if _has_val(f0, q) else True))))


@lemma("C18", unbounded="map size, keys and values", bounds="none on values; one operation")
def delete_right_step_unbounded():
    b, f0, g0 = _sym_bimap()
    k = sym.int("k")
    q, r = sym.int("q"), sym.int("r")
    was = _has(g0, k)
    try:
        b.delete_right(k)
        raised = False
    except KeyError:
        raised = True
    sym.check("keyerror_iff_absent", sym.iff(raised, sym.not_(was)))
    _post_bijection(b, q, r)
    g = b.bck
    sym.check("post:deletes_exactly",
              sym.ite(r == k, sym.not_(_has(g, r)),
                      sym.and_(sym.iff(_has(g, r), _has(g0, r)),
                               sym.implies(_has(g0, r), _eq_at(g, r, _at(g0, r)) if _has_val(g0, r) else True))))
