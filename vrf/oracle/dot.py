"""Parse the DOT source produced by hugr's DotRenderer back into nodes / clusters / edges."""
import re


def parse(src: str):
    nodes = {}      # idx -> {"cluster": path tuple, "label": str, "in": [...], "out": [...], "count": n}
    edges = []      # (src_idx, src_off, dst_idx, dst_off, label, attrs)
    clusters = {}   # idx -> parent cluster idx (or None)
    stack = []
    lines = src.split("\n")
    i = 0
    node_re = re.compile(r'^\s*"?(\d+)"? \[(.*)$')
    edge_re = re.compile(r'^\s*"?(\d+)"?:"?out\.(-?\d+|None)"? -> "?(\d+)"?:"?in\.(-?\d+|None)"? \[(.*)\]\s*$')
    sub_re = re.compile(r'^\s*subgraph "?cluster(\d+)"? \{\s*$')
    while i < len(lines):
        ln = lines[i]
        m = sub_re.match(ln)
        if m:
            idx = int(m.group(1))
            clusters[idx] = stack[-1] if stack else None
            stack.append(idx)
            i += 1
            continue
        if re.match(r'^\s*\}\s*$', ln):
            if stack:
                stack.pop()
            i += 1
            continue
        m = edge_re.match(ln)
        if m:
            attrs = m.group(5)
            lab = re.search(r'label=("((?:[^"\\]|\\.)*)"|([^ \]]+))', attrs)
            label = ""
            if lab:
                label = lab.group(2) if lab.group(2) is not None else lab.group(3)
                label = label.replace('\\"', '"')
            edges.append((int(m.group(1)), m.group(2), int(m.group(3)), m.group(4), label, attrs))
            i += 1
            continue
        m = node_re.match(ln)
        if m and "->" not in ln.split("[")[0]:
            idx = int(m.group(1))
            body = ln
            # node statements with HTML labels span several lines: read until the closing '>' + attrs + ']'
            while not re.search(r'\]\s*$', lines[i]) and i + 1 < len(lines):
                i += 1
                body += "\n" + lines[i]
            rec = nodes.setdefault(idx, {"cluster": None, "label": "", "in": [], "out": [], "count": 0})
            rec["count"] += 1
            rec["cluster"] = stack[-1] if stack else None
            rec["label"] = body
            rec["in"] = re.findall(r'PORT="in\.(-?\d+)"', body)
            rec["out"] = re.findall(r'PORT="out\.(-?\d+)"', body)
            b = re.search(r"<B>(.*?)</B>", body, re.S)
            rec["name"] = b.group(1) if b else None
            i += 1
            continue
        i += 1
    return nodes, clusters, edges


def normalise_colours(src: str, palette) -> str:
    out = src
    for field in ("background", "node", "edge", "dark", "const", "discard", "node_border", "port_border"):
        pass
    # replace every colour-valued attribute by a placeholder
    out = re.sub(r'(BGCOLOR|COLOR|bgcolor|color|fontcolor)=("[^"]*"|[^ \]>]+)', r'\1=C', out)
    return out
