"""Oracle for C12: is an exported hugr-model module well scoped and faithful to the HUGR?
Transcribes the clauses of the property, cross-read against hugr-core/src/export.rs
(make_ports = value ports of the signature; blocks: 1 control input, #successors control outputs;
CFG region source = entry block *input*, targets = exit block input; order hints on the region,
keys on both nodes; Input/Output become region sources/targets; constants inlined)."""
import json
import re

import hugr.model as model
from hugr import ops, tys
from hugr.hugr.node_port import Direction, InPort, Node, OutPort


class UF:
    def __init__(self):
        self.p = {}

    def find(self, x):
        self.p.setdefault(x, x)
        while self.p[x] != x:
            self.p[x] = self.p[self.p[x]]
            x = self.p[x]
        return x

    def union(self, a, b):
        self.p[self.find(a)] = self.find(b)


def value_ports(h, n):
    """(n_in, n_out) the exported node must list."""
    op = h[n].op
    if isinstance(op, ops.DataflowBlock):
        return 1, len(op.sum_ty.variant_rows)
    if isinstance(op, ops.ExitBlock):
        return 1, 0
    if isinstance(op, ops.Call):
        return len(op.instantiation.input), len(op.instantiation.output)
    if isinstance(op, ops.DataflowOp):
        sig = op.outer_signature()
        return len(sig.input), len(sig.output)
    return 0, 0


def _meta_json(terms):
    return {t.args[0].value: t.args[1].value for t in terms
            if isinstance(t, model.Apply) and t.symbol == "compat.meta_json" and len(t.args) == 2}


def func_term(term, body) -> list:
    """A function-valued constant: `Func(region)`, the region being the body's root dataflow graph (reference: export.rs,
    Value::Function -> export_dfg of the root)."""
    out = []
    if not isinstance(term, model.Func):
        return [f"exported as {type(term).__name__}, not a function term"]
    r = term.region
    if r.kind != model.RegionKind.DATA_FLOW:
        out.append(f"region kind {r.kind}")
    kids = body.children(body.root)
    inp = [c for c in kids if isinstance(body[c].op, ops.Input)]
    outp = [c for c in kids if isinstance(body[c].op, ops.Output)]
    rest = [c for c in kids if not isinstance(body[c].op, ops.Input | ops.Output | ops.Const)]
    if inp and len(r.sources) != len(body[inp[0]].op.types):
        out.append(f"{len(r.sources)} sources for {len(body[inp[0]].op.types)} inputs")
    if outp and len(r.targets) != len(body[outp[0]].op.types):
        out.append(f"{len(r.targets)} targets for {len(body[outp[0]].op.types)} outputs")
    if len(r.children) != len(rest):
        out.append(f"{len(r.children)} children for {len(rest)} body nodes")
    for c, mc in zip(rest, r.children):
        want = {k: json.dumps(v) for k, v in body[c].metadata.items()}
        if _meta_json(mc.meta) != want:
            out.append(f"body node {c.idx}: metadata {_meta_json(mc.meta)} != {want}")
        ni, no = value_ports(body, c)
        if len(mc.inputs) != ni or len(mc.outputs) != no:
            out.append(f"body node {c.idx}: lists {len(mc.inputs)}/{len(mc.outputs)} ports, signature has {ni}/{no}")
    # inside the (closed) region two ports share a name exactly when an edge of the body joins them
    uf = UF()
    for s_, t_ in body.links():
        uf.union(("out", s_.node.idx, s_.offset), ("in", t_.node.idx, t_.offset))
    names = {}
    if inp:
        for i, nm in enumerate(r.sources):
            names[("out", inp[0].idx, i)] = nm
    if outp:
        for i, nm in enumerate(r.targets):
            names[("in", outp[0].idx, i)] = nm
    for c, mc in zip(rest, r.children):
        for i, nm in enumerate(mc.inputs):
            names[("in", c.idx, i)] = nm
        for i, nm in enumerate(mc.outputs):
            names[("out", c.idx, i)] = nm
    ports = list(names)
    for i, a in enumerate(ports):
        for b in ports[i + 1:]:
            if (uf.find(a) == uf.find(b)) != (names[a] == names[b]):
                out.append(f"ports {a} and {b}: names {names[a]!r}/{names[b]!r} disagree with the body's edges")
    return out


def check(h, m) -> list:
    out = []
    uf = UF()
    for s, t in h.links():
        uf.union(("out", s.node.idx, s.offset), ("in", t.node.idx, t.offset))
    names = {}   # port -> name as exported
    symbols = {}
    applied = []
    regions_seen = []

    def listed(port, name):
        names[port] = name

    def walk_node(n, mn, parent_region_children):
        op = h[n].op
        ni, no = value_ports(h, n)
        if isinstance(op, ops.FuncDefn | ops.FuncDecl | ops.AliasDecl | ops.AliasDefn):
            if len(mn.inputs) or len(mn.outputs):
                out.append(f"node {n.idx} ({op.name()}): declares ports {mn.inputs} {mn.outputs}")
        else:
            if len(mn.inputs) != ni:
                out.append(f"node {n.idx} ({op.name()}): lists {len(mn.inputs)} inputs, signature has {ni} value ports")
            if len(mn.outputs) != no:
                out.append(f"node {n.idx} ({op.name()}): lists {len(mn.outputs)} outputs, signature has {no} value ports")
        for i, nm in enumerate(mn.inputs):
            listed(("in", n.idx, i), nm)
        for i, nm in enumerate(mn.outputs):
            listed(("out", n.idx, i), nm)
        # metadata carried over
        want_meta = {k: json.dumps(v) for k, v in h[n].metadata.items()}
        got_meta = {}
        for t in mn.meta:
            if isinstance(t, model.Apply) and t.symbol == "compat.meta_json" and len(t.args) == 2:
                got_meta[t.args[0].value] = t.args[1].value
        if got_meta != want_meta:
            out.append(f"node {n.idx}: metadata {got_meta} != {want_meta}")
        if isinstance(op, ops.LoadConst):
            # constants are inlined into their loads; a function-valued constant becomes a dataflow region mirroring its body
            t = mn.operation.operation if isinstance(mn.operation, model.CustomOp) else None
            if not (isinstance(t, model.Apply) and t.symbol == "core.load_const" and len(t.args) == 2):
                out.append(f"node {n.idx}: constant load exported as {mn.operation!r:.80}")
            else:
                src = list(h.linked_ports(InPort(n, 0)))
                cv = h[src[0].node].op.val if src and isinstance(h[src[0].node].op, ops.Const) else None
                from hugr import val as _val
                if isinstance(cv, _val.Function):
                    out.extend(f"function constant loaded by {n.idx}: {e}" for e in func_term(t.args[1], cv.body))
                elif cv is not None and t.args[1] != cv.to_model():
                    out.append(f"node {n.idx}: the inlined constant is not the one the load is linked to")
                if cv is not None and t.args[0] != op.type_.to_model():
                    out.append(f"node {n.idx}: inlined constant type is not the load's type")
        if isinstance(op, ops.FuncDefn | ops.FuncDecl):
            if not isinstance(mn.operation, model.DefineFunc | model.DeclareFunc):
                out.append(f"node {n.idx}: function exported as {type(mn.operation).__name__}")
            else:
                symbols[mn.operation.symbol.name] = n.idx
                if len(mn.operation.symbol.params) != len(op.signature.params):
                    out.append(f"node {n.idx}: symbol has {len(mn.operation.symbol.params)} params, function has {len(op.signature.params)}")
        if isinstance(op, ops.Call | ops.LoadFunc):
            t = mn.operation.operation if isinstance(mn.operation, model.CustomOp) else None
            fn = t.args[-1] if isinstance(t, model.Apply) and t.args else None
            src = [s for s in h.linked_ports(InPort(n, len(op.instantiation.input) if isinstance(op, ops.Call) else 0))]
            applied.append((n.idx, fn.symbol if isinstance(fn, model.Apply) else None, src[0].node.idx if src else None))
        # child regions
        kids = h.children(n)
        if isinstance(op, ops.Conditional):
            if len(mn.regions) != len(kids):
                out.append(f"conditional {n.idx}: {len(mn.regions)} regions for {len(kids)} cases")
            for c, r in zip(kids, mn.regions):
                walk_dfg_region(c, r)
        elif isinstance(op, ops.CFG):
            if len(mn.regions) != 1:
                out.append(f"cfg {n.idx}: {len(mn.regions)} regions")
            else:
                walk_cfg_region(n, mn.regions[0])
        elif isinstance(op, ops.DfParentOp):
            if len(mn.regions) != 1:
                out.append(f"node {n.idx}: {len(mn.regions)} regions for a dataflow parent")
            else:
                walk_dfg_region(n, mn.regions[0])
        elif mn.regions:
            out.append(f"node {n.idx}: unexpected regions")

    def walk_dfg_region(n, r):
        kids = h.children(n)
        inp = [c for c in kids if isinstance(h[c].op, ops.Input)]
        outp = [c for c in kids if isinstance(h[c].op, ops.Output)]
        body = [c for c in kids if not isinstance(h[c].op, ops.Input | ops.Output | ops.Const)]
        if r.kind != model.RegionKind.DATA_FLOW:
            out.append(f"region of {n.idx}: kind {r.kind}")
        if inp:
            k = len(h[inp[0]].op.types)
            if len(r.sources) != k:
                out.append(f"region of {n.idx}: {len(r.sources)} sources for {k} inputs")
            for i, nm in enumerate(r.sources):
                listed(("out", inp[0].idx, i), nm)
        if outp:
            k = len(h[outp[0]].op.types)
            if len(r.targets) != k:
                out.append(f"region of {n.idx}: {len(r.targets)} targets for {k} outputs")
            for i, nm in enumerate(r.targets):
                listed(("in", outp[0].idx, i), nm)
        if len(r.children) != len(body):
            out.append(f"region of {n.idx}: {len(r.children)} children for {len(body)} non-boundary non-constant nodes")
        for c, mc in zip(body, r.children):
            walk_node(c, mc, r.children)
        # order hints
        want = set()
        for c in body:
            for succ in h.outgoing_order_links(c):
                if succ in body:
                    want.add((c.idx, succ.idx))
        got = set()
        for t in r.meta:
            if isinstance(t, model.Apply) and t.symbol == "core.order_hint.order":
                got.add((t.args[0].value, t.args[1].value))
        if got != want:
            out.append(f"region of {n.idx}: order hints {sorted(got)} != order edges between non-boundary siblings {sorted(want)}")
        keyed = {}
        for c, mc in zip(body, r.children):
            ks = [t.args[0].value for t in mc.meta if isinstance(t, model.Apply) and t.symbol == "core.order_hint.key"]
            keyed[c.idx] = ks
        for (a, b) in want:
            if keyed.get(a) != [a] or keyed.get(b) != [b]:
                out.append(f"region of {n.idx}: order hint ({a},{b}) without matching keys on both nodes ({keyed.get(a)}, {keyed.get(b)})")

    def walk_cfg_region(n, r):
        kids = h.children(n)
        blocks = [c for c in kids if isinstance(h[c].op, ops.DataflowBlock)]
        exits = [c for c in kids if isinstance(h[c].op, ops.ExitBlock)]
        if r.kind != model.RegionKind.CONTROL_FLOW:
            out.append(f"cfg region of {n.idx}: kind {r.kind}")
        if len(r.children) != len(blocks):
            out.append(f"cfg region of {n.idx}: {len(r.children)} children for {len(blocks)} blocks")
        for c, mc in zip(blocks, r.children):
            if not isinstance(mc.operation, model.Block):
                out.append(f"block {c.idx} exported as {type(mc.operation).__name__}")
            walk_node(c, mc, r.children)
        if len(r.sources) != 1:
            out.append(f"cfg region of {n.idx}: {len(r.sources)} sources")
        elif blocks:
            listed(("in", blocks[0].idx, 0), r.sources[0])   # the region source is the entry block's control INPUT
        if exits:
            if len(r.targets) != 1:
                out.append(f"cfg region of {n.idx}: {len(r.targets)} targets for the exit block")
            for i, nm in enumerate(r.targets):
                listed(("in", exits[0].idx, i), nm)

    root = h.root
    r = m.root
    if r.kind != model.RegionKind.MODULE:
        out.append("root region is not a module region")
    top = [c for c in h.children(root) if not isinstance(h[c].op, ops.Const)]
    if len(r.children) != len(top):
        out.append(f"module region: {len(r.children)} children for {len(top)} non-constant nodes")
    for c, mc in zip(top, r.children):
        walk_node(c, mc, r.children)
    # link names: same name iff joined by an edge (the entry-block input joins nothing else)
    ports = list(names)
    for i, a in enumerate(ports):
        for b in ports[i + 1:]:
            joined = uf.find(a) == uf.find(b)
            if joined != (names[a] == names[b]):
                out.append(f"ports {a} and {b}: names {names[a]!r}/{names[b]!r} but {'joined' if joined else 'not joined'} by an edge")
    # producers: a value link name has at most one producer-side port among outputs/sources (control links: one consumer)
    for (node_idx, sym, target) in applied:
        if sym is None or sym not in symbols:
            out.append(f"node {node_idx}: applies function symbol {sym!r} which no definition or declaration of the module carries ({sorted(symbols)})")
        elif symbols[sym] != target:
            out.append(f"node {node_idx}: applies {sym!r} (node {symbols[sym]}) but is linked to function node {target}")
    return out


def binding_attribute_complaints(python_rs_text) -> list:
    """Python model classes expose exactly the attributes the Rust binding reads."""
    import dataclasses
    out = []
    reads = {}
    # enum-like impls: match arms  "Name" => { ... getattr("x") ... }
    for m in re.finditer(r'"(\w+)"\s*=>\s*\{(.*?)\n\s{12}\}', python_rs_text, re.S):
        reads.setdefault(m.group(1), set()).update(re.findall(r'getattr\("(\w+)"\)', m.group(2)))
    for m in re.finditer(r'"(\w+)"\s*=>\s*Self::\w+,', python_rs_text):
        reads.setdefault(m.group(1), set())
    # struct impls
    for m in re.finditer(r"FromPyObject<'py> for (\w+) \{(.*?)\n\}", python_rs_text, re.S):
        name, body = m.group(1), m.group(2)
        if "get_type().name()" in body:
            if name == "SeqPart":
                reads.setdefault("Splice", set()).update(["seq"])
            continue
        reads.setdefault(name, set()).update(re.findall(r'getattr\("(\w+)"\)', body))
    for cls_name, attrs in sorted(reads.items()):
        cls = getattr(model, cls_name, None)
        if cls is None:
            out.append(f"binding reads class {cls_name} which hugr.model does not define")
            continue
        fields = {f.name for f in dataclasses.fields(cls)} if dataclasses.is_dataclass(cls) else set()
        if fields != attrs:
            out.append(f"{cls_name}: model exposes {sorted(fields)}, binding reads {sorted(attrs)}")
    return out
