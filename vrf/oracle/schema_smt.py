"""JSON-Schema -> SMT (z3): per-definition equivalence of two schema documents.

For a definition name D present in both documents, phi_A^D(x) and phi_B^D(x) are built over one
shared abstract JSON value x.  The abstraction is path-indexed: for every JSON-pointer-like
path reached by either schema there are atoms kind(path), intval(path), strid(path),
len(path), present(path, prop), extra(path) and children path/prop, path/*, path/[i], path/[].
`$ref R` at a path is a shared Boolean atom ref(path, R): the coinductive hypothesis "same-named
definitions are equivalent" is discharged because every name is checked.  phi_A xor phi_B unsat
for all D  =>  both documents accept exactly the same JSON values, to any depth.

A sat answer is turned into a concrete JSON witness (using per-definition valid/invalid
instances) and replayed with `jsonschema` against both documents; only a witness on which the two
validators really disagree counts.
"""
from __future__ import annotations

import json
import re
import time

import z3

KINDS = ["null", "boolean", "integer", "number", "string", "array", "object"]  # "number" here = non-integer number
K = {k: i for i, k in enumerate(KINDS)}
ANNOTATIONS = {"title", "description", "default", "discriminator", "$defs", "examples", "deprecated"}
HANDLED = {"type", "properties", "required", "additionalProperties", "items", "prefixItems", "minItems", "maxItems", "uniqueItems",
           "const", "enum", "anyOf", "oneOf", "allOf", "$ref", "pattern"}


class Unsupported(Exception):
    pass


class Abs:
    """Atoms of the shared abstract value, created on demand per path."""

    def __init__(self, strings):
        self.strings = {s: i for i, s in enumerate(sorted(strings))}  # literal string -> id ; other strings get ids >= len
        self.atoms = {}
        self.paths = {}
        self.ref_atoms = {}
        self.pattern_atoms = {}
        self.constraints = []

    def _a(self, name, sort):
        if name not in self.atoms:
            self.atoms[name] = z3.Const(name, sort)
        return self.atoms[name]

    def kind(self, p):
        k = self._a(f"kind@{p}", z3.IntSort())
        if ("kind", p) not in self.paths:
            self.paths[("kind", p)] = 1
            self.constraints.append(z3.And(k >= 0, k < len(KINDS)))
        return k

    def intval(self, p):
        return self._a(f"int@{p}", z3.IntSort())

    def boolval(self, p):
        return self._a(f"bool@{p}", z3.BoolSort())

    def strid(self, p):
        s = self._a(f"str@{p}", z3.IntSort())
        if ("str", p) not in self.paths:
            self.paths[("str", p)] = 1
            self.constraints.append(s >= 0)
        return s

    def length(self, p):
        n = self._a(f"len@{p}", z3.IntSort())
        if ("len", p) not in self.paths:
            self.paths[("len", p)] = 1
            self.constraints.append(n >= 0)
        return n

    def present(self, p, prop):
        self.paths.setdefault(("props", p), set()).add(prop)
        return self._a(f"has@{p}/{prop}", z3.BoolSort())

    def extra(self, p):
        return self._a(f"extra@{p}", z3.BoolSort())

    def distinct(self, p):
        return self._a(f"distinct@{p}", z3.BoolSort())

    def ref(self, p, name):
        self.ref_atoms[(p, name)] = 1
        return self._a(f"ref@{p}->{name}", z3.BoolSort())

    def pattern(self, p, pat):
        self.pattern_atoms[(p, pat)] = 1
        return self._a(f"pat@{p}~{pat}", z3.BoolSort())


def collect_strings(schema, out):
    if isinstance(schema, dict):
        if "const" in schema and isinstance(schema["const"], str):
            out.add(schema["const"])
        for e in schema.get("enum", []):
            if isinstance(e, str):
                out.add(e)
        for k, v in schema.items():
            if k in ("properties",):
                for sv in v.values():
                    collect_strings(sv, out)
            elif k in ("items", "additionalProperties") and isinstance(v, dict):
                collect_strings(v, out)
            elif k in ("anyOf", "oneOf", "allOf", "prefixItems"):
                for sv in v:
                    collect_strings(sv, out)


def _json_is(a: Abs, p, v):
    """formula: value at p equals JSON scalar v."""
    if v is None:
        return a.kind(p) == K["null"]
    if isinstance(v, bool):
        return z3.And(a.kind(p) == K["boolean"], a.boolval(p) == v)
    if isinstance(v, int):
        return z3.And(a.kind(p) == K["integer"], a.intval(p) == v)
    if isinstance(v, str):
        return z3.And(a.kind(p) == K["string"], a.strid(p) == a.strings[v])
    raise Unsupported(f"const/enum value {v!r}")


def _type(a: Abs, p, t):
    if isinstance(t, list):
        return z3.Or(*[_type(a, p, x) for x in t])
    if t == "number":
        return z3.Or(a.kind(p) == K["integer"], a.kind(p) == K["number"])
    if t in K:
        return a.kind(p) == K[t]
    raise Unsupported(f"type {t!r}")


def encode(a: Abs, s, p: str):
    """z3 formula: the abstract value at path p satisfies schema s."""
    if s is True or s == {}:
        return z3.BoolVal(True)
    if s is False:
        return z3.BoolVal(False)
    if not isinstance(s, dict):
        raise Unsupported(f"schema node {s!r}")
    for k in s:
        if k not in HANDLED and k not in ANNOTATIONS:
            raise Unsupported(f"keyword {k!r}")
    cs = []
    if "$ref" in s:
        name = s["$ref"].rsplit("/", 1)[-1]
        cs.append(a.ref(p, name))
    if "type" in s:
        cs.append(_type(a, p, s["type"]))
    if "const" in s:
        cs.append(_json_is(a, p, s["const"]))
    if "enum" in s:
        cs.append(z3.Or(*[_json_is(a, p, v) for v in s["enum"]]))
    if "pattern" in s:
        cs.append(z3.Implies(a.kind(p) == K["string"], a.pattern(p, s["pattern"])))
    is_obj = a.kind(p) == K["object"]
    is_arr = a.kind(p) == K["array"]
    props = s.get("properties", {})
    if props or "required" in s or "additionalProperties" in s:
        for name, sub in props.items():
            cs.append(z3.Implies(z3.And(is_obj, a.present(p, name)), encode(a, sub, f"{p}/{name}")))
        for name in s.get("required", []):
            cs.append(z3.Implies(is_obj, a.present(p, name)))
        ap = s.get("additionalProperties", True)
        # properties that this schema does not name: the named-by-the-other-side ones are handled by the caller
        # registering the union of names (see `other_props`), the rest through the `extra` atom.
        a.paths.setdefault(("ap", p), []).append((set(props), ap))
    if "items" in s or "prefixItems" in s or "minItems" in s or "maxItems" in s or "uniqueItems" in s:
        n = a.length(p)
        pre = s.get("prefixItems", [])
        for i, sub in enumerate(pre):
            cs.append(z3.Implies(z3.And(is_arr, n > i), encode(a, sub, f"{p}/[{i}]")))
        a.paths.setdefault(("prefix", p), []).append(len(pre))
        if "items" in s:
            # every element from index len(prefixItems) on: explicit slots below the (global) prefix horizon + one representative
            a.paths.setdefault(("items", p), []).append((len(pre), s["items"]))
        if "minItems" in s:
            cs.append(z3.Implies(is_arr, n >= s["minItems"]))
        if "maxItems" in s:
            cs.append(z3.Implies(is_arr, n <= s["maxItems"]))
        if s.get("uniqueItems"):
            cs.append(z3.Implies(is_arr, a.distinct(p)))
    for key in ("anyOf", "oneOf", "allOf"):
        if key in s:
            subs = [encode(a, sub, p) for sub in s[key]]
            if key == "anyOf":
                cs.append(z3.Or(*subs))
            elif key == "allOf":
                cs.append(z3.And(*subs))
            else:
                cs.append(z3.PbEq([(x, 1) for x in subs], 1))
    return z3.And(*cs) if cs else z3.BoolVal(True)


def encode_pair(sa, sb, strings):
    """(phi_A, phi_B, Abs) over one shared abstract value, with the deferred (cross-schema) parts resolved."""
    a = Abs(strings)
    done_ap, done_items = set(), set()

    entry_side = {}
    seen_counts = {}

    def _assign_sides():
        for key, entries in a.paths.items():
            if key[0] in ("ap", "items"):
                for idx in range(seen_counts.get(key, 0), len(entries)):
                    entry_side[(key, idx)] = current_side[0]
                seen_counts[key] = len(entries)

    current_side = [0]
    fa = encode(a, sa, "$")
    _assign_sides()
    current_side[0] = 1
    fb = encode(a, sb, "$")
    _assign_sides()
    # resolve deferred parts; children created while resolving side s belong to side s: do it side by side
    # (entries are tagged at creation time through current_side)
    ex = {0: [], 1: []}
    for _ in range(50):
        before = (len(done_ap), len(done_items))
        for side in (0, 1):
            current_side[0] = side
            # only process entries of this side
            r = _close_side(a, side, entry_side, done_ap, done_items, _assign_sides)
            ex[side] += r
        if (len(done_ap), len(done_items)) == before:
            break
    fa = z3.And(fa, *ex[0])
    fb = z3.And(fb, *ex[1])
    return fa, fb, a


def _close_side(a, side, entry_side, done_ap, done_items, assign):
    out = []
    for key in list(a.paths):
        if key[0] == "ap":
            p = key[1]
            names = set(a.paths.get(("props", p), set()))
            for idx, (own, ap) in enumerate(list(a.paths[key])):
                if entry_side.get((key, idx)) != side:
                    continue
                tagk = (p, idx, frozenset(names))
                if tagk in done_ap:
                    continue
                done_ap.add(tagk)
                is_obj = a.kind(p) == K["object"]
                for nm in sorted(names - own):
                    f = encode(a, ap, f"{p}/{nm}") if isinstance(ap, dict) else z3.BoolVal(bool(ap))
                    assign()
                    out.append(z3.Implies(z3.And(is_obj, a.present(p, nm)), f))
                f = encode(a, ap, f"{p}/*") if isinstance(ap, dict) else z3.BoolVal(bool(ap))
                assign()
                out.append(z3.Implies(z3.And(is_obj, a.extra(p)), f))
        if key[0] == "items":
            p = key[1]
            horizon = max(a.paths.get(("prefix", p), [0]) + [0])
            for idx, (start, sub) in enumerate(list(a.paths[key])):
                if entry_side.get((key, idx)) != side:
                    continue
                tagk = (p, idx, horizon)
                if tagk in done_items:
                    continue
                done_items.add(tagk)
                is_arr = a.kind(p) == K["array"]
                n = a.length(p)
                for i in range(start, horizon):
                    out.append(z3.Implies(z3.And(is_arr, n > i), encode(a, sub, f"{p}/[{i}]")))
                    assign()
                out.append(z3.Implies(z3.And(is_arr, n > horizon), encode(a, sub, f"{p}/[]")))
                assign()
    return out


# ---------------------------------------------------------------------------
# concretisation of a model into a JSON witness
# ---------------------------------------------------------------------------
class Witnesses:
    """Per-definition instances: valid under BOTH documents / invalid under BOTH (found with jsonschema)."""

    def __init__(self, doc_a, doc_b):
        import jsonschema
        self.js = jsonschema
        self.docs = (doc_a, doc_b)
        self.validators = {}
        self.valid = {}

    def validator(self, which, name):
        key = (which, name)
        if key not in self.validators:
            doc = self.docs[which]
            self.validators[key] = self.js.Draft202012Validator({"$ref": f"#/$defs/{name}", "$defs": doc["$defs"]})
        return self.validators[key]

    def ok(self, which, name, value):
        return self.validator(which, name).is_valid(value)

    def invalid_instance(self, name):
        for cand in (1.5, "__no_such_value__", None, [], {}, 7):
            if not self.ok(0, name, cand) and not self.ok(1, name, cand):
                return cand
        return 1.5

    def valid_instance(self, name, depth=0):
        if name in self.valid:
            return self.valid[name]
        if depth > 6:
            return None
        v = self._build(self.docs[0]["$defs"].get(name) or self.docs[1]["$defs"].get(name), depth)
        if v is not None and self.ok(0, name, v) and self.ok(1, name, v):
            self.valid[name] = v
            return v
        return v

    def _build(self, s, depth):
        """A (hopefully) valid instance of an inline schema: greedy, smallest alternatives first."""
        if s is True or s == {} or s is None:
            return {}
        if "$ref" in s:
            return self.valid_instance(s["$ref"].rsplit("/", 1)[-1], depth + 1)
        if "const" in s:
            return s["const"]
        if "enum" in s:
            return s["enum"][0]
        for key in ("oneOf", "anyOf"):
            if key in s:
                for sub in s[key]:
                    v = self._build({**{k: v for k, v in s.items() if k not in ("oneOf", "anyOf", "discriminator")}, **sub} if isinstance(sub, dict) else sub, depth + 1)
                    if v is not None or (isinstance(sub, dict) and sub.get("type") == "null"):
                        return v
                return None
        t = s.get("type")
        if isinstance(t, list):
            t = t[0]
        if t == "object" or "properties" in s:
            out = {}
            for name, sub in s.get("properties", {}).items():
                # discriminator-like constants are always written, besides the required properties
                if name in s.get("required", []) or (isinstance(sub, dict) and "const" in sub):
                    out[name] = self._build(sub, depth + 1)
            for name in s.get("required", []):
                if name not in out:
                    out[name] = self._build(s.get("properties", {}).get(name, {}), depth + 1)
            return out
        if t == "array":
            pre = [self._build(x, depth + 1) for x in s.get("prefixItems", [])]
            n = s.get("minItems", 0)
            while len(pre) < n:
                pre.append(self._build(s.get("items", {}), depth + 1))
            return pre
        if t == "string":
            if "pattern" in s:
                return "0.1.0"
            return "s"
        if t == "integer":
            return 0
        if t == "number":
            return 0.5
        if t == "boolean":
            return False
        if t == "null":
            return None
        return {}


def concretize(a: Abs, model, wit: Witnesses, p="$"):
    def ev(t):
        return model.eval(t, model_completion=True)
    kind = KINDS[ev(a.kind(p)).as_long()]
    # if some ref atom at this path is true, use a valid instance of that definition (shape must agree)
    true_refs = [n for (pp, n) in a.ref_atoms if pp == p and z3.is_true(ev(a.ref(p, n)))]
    false_refs = [n for (pp, n) in a.ref_atoms if pp == p and not z3.is_true(ev(a.ref(p, n)))]
    if true_refs:
        v = wit.valid_instance(true_refs[0])
        return v
    if false_refs and not any(k[1] == p for k in a.paths if k[0] in ("props", "prefix", "items", "ap")):
        return wit.invalid_instance(false_refs[0])
    if kind == "null":
        return None
    if kind == "boolean":
        return bool(z3.is_true(ev(a.boolval(p))))
    if kind == "integer":
        return ev(a.intval(p)).as_long()
    if kind == "number":
        return 0.5
    if kind == "string":
        sid = ev(a.strid(p)).as_long()
        for s, i in a.strings.items():
            if i == sid:
                return s
        pats = [pat for (pp, pat) in a.pattern_atoms if pp == p]
        if pats and z3.is_true(ev(a.pattern(p, pats[0]))):
            return "0.1.0"
        return "__other_string__"
    if kind == "array":
        n = ev(a.length(p)).as_long()
        horizon = max(a.paths.get(("prefix", p), [0]) + [0])
        n = min(n, horizon + 2)
        out = []
        for i in range(n):
            cp = f"{p}/[{i}]" if i < horizon else f"{p}/[]"
            out.append(concretize(a, model, wit, cp) if f"kind@{cp}" in a.atoms else 0)
        if f"distinct@{p}" in a.atoms:
            if not z3.is_true(ev(a.distinct(p))):
                out = (out + out)[:max(2, len(out))] if out else ["dup", "dup"]      # a repeated element
                if len(out) >= 2:
                    out[1] = out[0]
            else:
                out = [x if not isinstance(x, str) else f"{x}{i}" for i, x in enumerate(out)]
        return out
    out = {}
    for nm in sorted(a.paths.get(("props", p), set())):
        if z3.is_true(ev(a.present(p, nm))):
            cp = f"{p}/{nm}"
            out[nm] = concretize(a, model, wit, cp) if (f"kind@{cp}" in a.atoms or any(pp == cp for (pp, _) in a.ref_atoms)) else 0
    if f"extra@{p}" in a.atoms and z3.is_true(ev(a.extra(p))):
        cp = f"{p}/*"
        out["__extra_property__"] = concretize(a, model, wit, cp) if f"kind@{cp}" in a.atoms else 0
    return out


# ---------------------------------------------------------------------------
def compare_documents(doc_a, doc_b, timeout_ms=60000):
    """Per-definition equivalence. Returns dict with per-definition verdicts and witnesses."""
    res = {"defs": {}, "q_sat": 0, "q_unsat": 0, "q_unknown": 0, "solver_s": 0.0, "missing_in_b": [], "missing_in_a": [], "annotation_diffs": []}
    da, db = doc_a.get("$defs", {}), doc_b.get("$defs", {})
    res["missing_in_b"] = sorted(set(da) - set(db))
    res["missing_in_a"] = sorted(set(db) - set(da))
    strings = set()
    for d in (da, db):
        for s in d.values():
            collect_strings(s, strings)
    wit = Witnesses(doc_a, doc_b)
    for name in sorted(set(da) & set(db)):
        entry = {"verdict": None}
        try:
            fa, fb, a = encode_pair(da[name], db[name], strings)
        except Unsupported as e:
            entry["verdict"] = "unsupported"
            entry["why"] = str(e)
            res["defs"][name] = entry
            continue
        s = z3.Solver()
        s.set("timeout", timeout_ms)
        s.add(*a.constraints)
        s.add(z3.Xor(fa, fb))
        t0 = time.time()
        r = str(s.check())
        res["solver_s"] += time.time() - t0
        if r == "unsat":
            res["q_unsat"] += 1
            entry["verdict"] = "equivalent"
        elif r == "sat":
            res["q_sat"] += 1
            m = s.model()
            w = concretize(a, m, wit)
            va, vb = wit.ok(0, name, w), wit.ok(1, name, w)
            entry.update({"verdict": "differ", "witness": w, "accepted_by_a": va, "accepted_by_b": vb, "confirmed": va != vb})
        else:
            res["q_unknown"] += 1
            entry["verdict"] = "unknown"
        # annotations named by the property: defaults, discriminators, required sets
        for ann in annotation_diffs(da[name], db[name], name):
            res["annotation_diffs"].append(ann)
        res["defs"][name] = entry
    return res


def annotation_diffs(sa, sb, where):
    out = []
    if isinstance(sa, dict) and isinstance(sb, dict):
        for key in ("default", "discriminator", "uniqueItems"):
            if sa.get(key, "__absent__") != sb.get(key, "__absent__"):
                out.append({"where": where, "keyword": key, "a": sa.get(key, "__absent__"), "b": sb.get(key, "__absent__")})
        if sorted(sa.get("required", [])) != sorted(sb.get("required", [])):
            out.append({"where": where, "keyword": "required", "a": sa.get("required"), "b": sb.get("required")})
        pa, pb = sa.get("properties", {}), sb.get("properties", {})
        for k in sorted(set(pa) & set(pb)):
            out += annotation_diffs(pa[k], pb[k], f"{where}.{k}")
        if sorted(pa) != sorted(pb):
            out.append({"where": where, "keyword": "properties", "a": sorted(pa), "b": sorted(pb)})
        for key in ("items", "additionalProperties"):
            if isinstance(sa.get(key), dict) and isinstance(sb.get(key), dict):
                out += annotation_diffs(sa[key], sb[key], f"{where}.{key}")
        for key in ("anyOf", "oneOf", "prefixItems"):
            la, lb = sa.get(key), sb.get(key)
            if isinstance(la, list) and isinstance(lb, list) and len(la) == len(lb):
                for i, (x, y) in enumerate(zip(la, lb)):
                    out += annotation_diffs(x, y, f"{where}.{key}[{i}]")
    return out
