"""Does a constant value inhabit the type it reports? (hugr-core: Value::validate / SumType::check_type,
and the std-extension constant definitions.)  Returns a list of complaints (empty = inhabits)."""
from hugr import tys, val


def type_equal(a, b) -> bool:
    """Type equality up to the opaque form of extension types."""
    return a._to_serial_root().model_dump() == b._to_serial_root().model_dump()


def inhabits(v, t=None) -> list:
    out = []
    rep = v.type_()
    if t is not None and not type_equal(rep, t):
        out.append(f"value of reported type {rep} where {t} is required")
    if isinstance(v, val.Sum):
        st = v.typ
        if not isinstance(st, tys.Sum):
            return out + ["sum value with non-sum type"]
        rows = st.variant_rows
        if not (isinstance(v.tag, int) and 0 <= v.tag < len(rows)):
            return out + [f"tag {v.tag} out of range for {len(rows)} variants"]
        row = rows[v.tag]
        if len(row) != len(v.vals):
            return out + [f"variant {v.tag} has {len(row)} fields, value has {len(v.vals)}"]
        for fv, ft in zip(v.vals, row):
            out += inhabits(fv, ft)
        return out
    if isinstance(v, val.Function):
        op = v.body.root_op()
        sig = op.inner_signature()
        if not (isinstance(rep, tys.FunctionType) and rep.input == sig.input and rep.output == sig.output):
            out.append("function value type differs from body signature")
        return out
    if isinstance(v, val.Extension) or hasattr(v, "to_value"):
        e = v.to_value() if hasattr(v, "to_value") else v
        if not type_equal(e.typ, rep):
            out.append("extension value: typ differs from reported type")
        return out
    return out + [f"unknown value kind {type(v).__name__}"]
