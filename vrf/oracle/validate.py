"""Reference validator for serialized HUGR documents: a Python transcription of the rules of
hugr-core/src/hugr/validate.rs (validate_node / validate_port / validate_edge / validate_children)
and hugr-core/src/ops/validate.rs, restricted to the clauses property C01 lists:

  V1  allowed parent/child operation pairs; non-leaf containers have children
  V2  first / second child (Input/Output, entry/exit) and rows equal to the container's signature;
      Conditional: one Case per variant with row_i ++ others -> outputs; CFG: entry inputs / exit outputs
  V3  every edge endpoint is a port the operation has (port counts from the signature)
  V4  same kind and type at both ends of every edge; CFG edges: successor row == target block inputs
  V5  every value / static input connected exactly once; non-copyable value outputs used exactly once
  V6  dataflow regions are acyclic (value + order edges among siblings)
  V7  non-local value edges: copyable, Ext (order edge to the ancestor) or Dom (CFG ancestor + dominance);
      no value edge into a function body; static edges from an enclosing scope
  V8  sum / tuple constants inhabit their declared type

The reader follows hugr-core's serialize.rs: node 0 is the root, nodes are attached to their
parents in list order, a null offset means `other_port`.  Extension-delta inference and
type-argument checking against a registry are outside (the property does not list them).
"""
from __future__ import annotations

import json

from hugr import ops, tys, val
from hugr._serialization import ops as sops

DF_PARENTS = (ops.DFG, ops.FuncDefn, ops.Case, ops.TailLoop, ops.DataflowBlock)
MODULE_OPS = (ops.FuncDefn, ops.FuncDecl, ops.Const, ops.AliasDecl, ops.AliasDefn)
SCOPED_DEFN = (ops.FuncDefn, ops.Const, ops.AliasDefn, ops.AliasDecl)


def type_eq(a, b) -> bool:
    return a._to_serial_root().model_dump() == b._to_serial_root().model_dump()


def row_eq(a, b) -> bool:
    return len(a) == len(b) and all(type_eq(x, y) for x, y in zip(a, b))


def copyable(t) -> bool:
    return t.type_bound() == tys.TypeBound.Copyable


class Doc:
    def __init__(self, doc):
        if isinstance(doc, str):
            doc = json.loads(doc)
        self.doc = doc
        self.n = len(doc["nodes"])
        self.ops = []
        self.parent = []
        for i, nd in enumerate(doc["nodes"]):
            self.parent.append(nd["parent"])
            self.ops.append(sops.OpType(**{"root": nd}).root.deserialize() if False else sops.OpType.model_validate(nd).root.deserialize())
        self.children = [[] for _ in range(self.n)]
        for i in range(1, self.n):
            self.children[self.parent[i]].append(i)
        # hugr-core builds the sum types that operations *derive* from their row fields with SumType::new, which
        # canonicalises a sum of empty rows to the Unit form (and compares SumType structurally: Unit{n} != General{[[]..]});
        # literal types inside rows are taken as written.
        for op in self.ops:
            if isinstance(op, ops.Conditional | ops.Tag):
                op.sum_ty = _sumtype_new(op.sum_ty.variant_rows)
            elif isinstance(op, ops.DataflowBlock) and op._sum is not None:
                op._sum = _sumtype_new(op._sum.variant_rows)

    # ---- port structure ------------------------------------------------------
    def sig(self, i):
        op = self.ops[i]
        if isinstance(op, ops.Call):
            return op.instantiation
        if isinstance(op, ops.DataflowOp):
            return op.outer_signature()
        return None

    def kinds(self, i, direction):
        """List of port kinds of node i in `direction` ('in'/'out'), following OpType::port_kind order:
        value ports, then static port, then the other (order / cf) ports."""
        op = self.ops[i]
        out = []
        if isinstance(op, ops.DataflowBlock):
            return [("cf",)] * (1 if direction == "in" else len(op.sum_ty.variant_rows))
        if isinstance(op, ops.ExitBlock):
            return [("cf",)] if direction == "in" else []
        s = self.sig(i)
        if s is not None:
            row = s.input if direction == "in" else s.output
            out += [("value", t) for t in row]
            if direction == "in":
                if isinstance(op, ops.Call | ops.LoadFunc):
                    out.append(("function", op.signature))
                elif isinstance(op, ops.LoadConst):
                    out.append(("const", op.type_))
            # Input has no order input, Output no order output (hugr-core: other_input/other_output)
            if not ((isinstance(op, ops.Input) and direction == "in") or (isinstance(op, ops.Output) and direction == "out")):
                out.append(("order",))
            return out
        if direction == "out":
            if isinstance(op, ops.Const):
                return [("const", op.val.type_())]
            if isinstance(op, ops.FuncDefn | ops.FuncDecl):
                return [("function", op.signature)]
        return []


def _sumtype_new(rows):
    rows = [list(r) for r in rows]
    if all(len(r) == 0 for r in rows) and len(rows) < 256:
        return tys.UnitSum(len(rows))
    return tys.Sum(rows)


def inner_signature(op):
    if isinstance(op, ops.TailLoop):
        return tys.FunctionType(op.just_inputs + op.rest, [_sumtype_new([op.just_inputs, op.just_outputs]), *op.rest])
    return op.inner_signature()


def _kind_eq(a, b) -> bool:
    if a[0] != b[0]:
        return False
    if a[0] in ("value", "const"):
        return type_eq(a[1], b[1])
    if a[0] == "function":
        return a[1]._to_serial().model_dump() == b[1]._to_serial().model_dump()
    return True


def validate(doc) -> list[str]:
    errs: list[str] = []
    try:
        d = Doc(doc)
    except Exception as e:  # noqa: BLE001
        return [f"document does not load: {type(e).__name__}: {e}"[:300]]
    n = d.n
    if n == 0 or d.parent[0] != 0:
        return ["node 0 is not the root (its own parent)"]
    for i in range(1, n):
        if not (0 <= d.parent[i] < i):
            errs.append(f"node {i}: parent {d.parent[i]} is not an earlier node")
    if errs:
        return errs
    # ---- edges with resolved offsets ------------------------------------------------
    edges = []
    for (s, so), (t, to) in d.doc["edges"]:
        if not (0 <= s < n and 0 <= t < n):
            errs.append(f"edge ({s},{so})->({t},{to}): endpoint names no node")
            continue
        ks, kt = d.kinds(s, "out"), d.kinds(t, "in")
        if so is None:
            so = next((j for j, k in enumerate(ks) if k[0] in ("order", "cf")), None)
        if to is None:
            to = next((j for j, k in enumerate(kt) if k[0] in ("order", "cf")), None)
        if so is None or to is None or not (0 <= so < len(ks)) or not (0 <= to < len(kt)):
            errs.append(f"V3 edge ({s},{so})->({t},{to}): port does not exist (node {s} has {len(ks)} out ports, node {t} has {len(kt)} in ports)")
            continue
        if not _kind_eq(ks[so], kt[to]):
            errs.append(f"V4 edge ({s},{so})->({t},{to}): kinds differ: {ks[so]} vs {kt[to]}")
            continue
        edges.append((s, so, t, to, ks[so]))
    # ---- V1 / V2 children --------------------------------------------------------------
    for i in range(n):
        op, kids = d.ops[i], d.children[i]
        kops = [d.ops[c] for c in kids]
        if isinstance(op, ops.Module):
            for c, k in zip(kids, kops):
                if not isinstance(k, MODULE_OPS):
                    errs.append(f"V1 node {c} ({k.name()}) not allowed under Module")
        elif isinstance(op, DF_PARENTS):
            if len(kids) < 2:
                errs.append(f"V2 dataflow parent {i} ({op.name()}) has fewer than 2 children")
                continue
            if not isinstance(kops[0], ops.Input) or not isinstance(kops[1], ops.Output):
                errs.append(f"V2 dataflow parent {i}: first/second child are not Input/Output")
                continue
            try:
                isig = inner_signature(op)
            except Exception as e:  # noqa: BLE001
                errs.append(f"node {i}: no inner signature ({e})")
                continue
            if not row_eq(kops[0].types, isig.input):
                errs.append(f"V2 Input row of {i} ({kops[0].types}) differs from container inputs {isig.input}")
            if not row_eq(kops[1].types, isig.output):
                errs.append(f"V2 Output row of {i} ({kops[1].types}) differs from container outputs {isig.output}")
            for c, k in zip(kids[2:], kops[2:]):
                if isinstance(k, ops.Input | ops.Output):
                    errs.append(f"V2 node {c}: Input/Output not in first/second position")
                if not (isinstance(k, ops.DataflowOp | ops.Call) or isinstance(k, SCOPED_DEFN)) or isinstance(k, ops.Module | ops.Case | ops.DataflowBlock | ops.ExitBlock):
                    errs.append(f"V1 node {c} ({k.name()}) not allowed in a dataflow region")
        elif isinstance(op, ops.Conditional):
            if not kids:
                errs.append(f"V1 Conditional {i} has no children")
            if any(not isinstance(k, ops.Case) for k in kops):
                errs.append(f"V1 Conditional {i} has a non-Case child")
            elif len(kops) != len(op.sum_ty.variant_rows):
                errs.append(f"V2 Conditional {i}: {len(kops)} cases for {len(op.sum_ty.variant_rows)} variants")
            else:
                for j, k in enumerate(kops):
                    if not row_eq(k.inputs, op.nth_inputs(j)) or not row_eq(k.outputs, op.outputs):
                        errs.append(f"V2 Case {kids[j]} signature differs from variant {j} ++ others -> outputs")
        elif isinstance(op, ops.CFG):
            if len(kids) < 2 or not isinstance(kops[0], ops.DataflowBlock) or not isinstance(kops[1], ops.ExitBlock):
                errs.append(f"V2 CFG {i}: first/second child are not entry block / exit block")
                continue
            if not row_eq(kops[0].inputs, op.inputs):
                errs.append(f"V2 CFG {i}: entry block inputs differ from CFG inputs")
            if not row_eq(kops[1].cfg_outputs, op.outputs):
                errs.append(f"V2 CFG {i}: exit block outputs differ from CFG outputs")
            for c, k in zip(kids[2:], kops[2:]):
                if isinstance(k, ops.ExitBlock):
                    errs.append(f"V2 CFG {i}: second exit block {c}")
                elif not isinstance(k, ops.DataflowBlock) and not isinstance(k, SCOPED_DEFN):
                    errs.append(f"V1 node {c} ({k.name()}) not allowed in a CFG")
        else:
            if kids:
                errs.append(f"V1 node {i} ({op.name()}) must not have children")
    # ---- V4 CFG edges ---------------------------------------------------------------------
    for (s, so, t, to, k) in edges:
        if k[0] == "cf":
            src, tgt = d.ops[s], d.ops[t]
            if d.parent[s] != d.parent[t]:
                errs.append(f"V4 control-flow edge {s}->{t} between different CFGs")
                continue
            want = tgt.inputs if isinstance(tgt, ops.DataflowBlock) else tgt.cfg_outputs
            if not row_eq(src.nth_outputs(so), want):
                errs.append(f"V4 control-flow edge ({s},{so})->{t}: successor row {src.nth_outputs(so)} != target inputs {want}")
    # ---- V5 connectivity ---------------------------------------------------------------------
    incoming, outgoing = {}, {}
    for (s, so, t, to, k) in edges:
        incoming.setdefault((t, to), []).append((s, so))
        outgoing.setdefault((s, so), []).append((t, to))
    for i in range(1, n):
        for j, k in enumerate(d.kinds(i, "in")):
            cnt = len(incoming.get((i, j), []))
            if k[0] in ("value", "const", "function") and cnt != 1:
                errs.append(f"V5 node {i} ({d.ops[i].name()}) input {j} ({k[0]}) has {cnt} incoming links")
        for j, k in enumerate(d.kinds(i, "out")):
            cnt = len(outgoing.get((i, j), []))
            if k[0] == "value" and not copyable(k[1]) and cnt != 1:
                errs.append(f"V5 node {i} ({d.ops[i].name()}) linear output {j} used {cnt} times")
            if k[0] == "cf" and cnt != 1:
                errs.append(f"V5 block {i} successor {j} has {cnt} targets")
    # ---- V6 acyclicity -----------------------------------------------------------------------
    for i in range(n):
        if isinstance(d.ops[i], DF_PARENTS):
            kids = set(d.children[i])
            succ = {c: set() for c in kids}
            for (s, so, t, to, k) in edges:
                if s in kids and t in kids and k[0] in ("value", "order"):
                    succ[s].add(t)
            state = {}

            def dfs(v):
                state[v] = 1
                for w in succ[v]:
                    if state.get(w) == 1:
                        return True
                    if w not in state and dfs(w):
                        return True
                state[v] = 2
                return False
            if any(c not in state and dfs(c) for c in kids):
                errs.append(f"V6 dataflow region of {i} has a cycle")
    # ---- V7 non-local edges ---------------------------------------------------------------------
    def ancestors(v):
        out = []
        while v != 0:
            v = d.parent[v]
            out.append(v)
        return out
    order_pairs = {(s, t) for (s, so, t, to, k) in edges if k[0] == "order"}
    for (s, so, t, to, k) in edges:
        if k[0] in ("cf", "order"):
            if k[0] == "order" and d.parent[s] != d.parent[t]:
                errs.append(f"V7 order edge {s}->{t} between non-siblings")
            continue
        fp, tp = d.parent[s], d.parent[t]
        if fp == tp:
            continue
        static = k[0] in ("const", "function")
        if not static and not copyable(k[1]):
            errs.append(f"V7 non-local edge ({s},{so})->({t},{to}) carries non-copyable {k[1]}")
            continue
        chain = [tp] + ancestors(tp)
        fpp = d.parent[fp] if fp != 0 else None
        entered_func = None
        verdict = None
        for a, ap in zip(chain, chain[1:]):
            if not static and isinstance(d.ops[a], ops.FuncDefn):
                entered_func = a
            if ap == fp:
                if entered_func is not None:
                    verdict = f"V7 value edge ({s},{so})->({t},{to}) enters function body {entered_func}"
                elif not static and (s, a) not in order_pairs:
                    verdict = f"V7 Ext edge ({s},{so})->({t},{to}) lacks the order edge {s}->{a}"
                else:
                    verdict = "ok"
                break
            if fpp is not None and ap == fpp and not static:
                if not isinstance(d.ops[ap], ops.CFG):
                    verdict = f"V7 edge ({s},{so})->({t},{to}): common ancestor {ap} is not a CFG"
                elif entered_func is not None:
                    verdict = f"V7 value edge ({s},{so})->({t},{to}) enters function body {entered_func}"
                elif not _dominates(d, edges, ap, fp, a):
                    verdict = f"V7 Dom edge ({s},{so})->({t},{to}): block {fp} does not dominate block {a}"
                else:
                    verdict = "ok"
                break
        if verdict is None:
            verdict = f"V7 edge ({s},{so})->({t},{to}): source and target have no Ext/Dom relation"
        if verdict != "ok":
            errs.append(verdict)
    # ---- V8 constants ---------------------------------------------------------------------
    from vrf.oracle.inhabits import inhabits
    for i in range(n):
        if isinstance(d.ops[i], ops.Const):
            for c in inhabits(d.ops[i].val):
                errs.append(f"V8 const {i}: {c}")
    return errs


def _dominates(d, edges, cfg, a, b) -> bool:
    """Does block a dominate block b in the CFG `cfg` (entry = first child)?"""
    kids = d.children[cfg]
    entry = kids[0]
    succ = {k: [] for k in kids}
    for (s, so, t, to, k) in edges:
        if k[0] == "cf" and s in succ and t in succ:
            succ[s].append(t)
    if a == b:
        return True
    # b reachable from entry without passing through a?
    seen, stack = {entry}, [entry]
    if entry == a:
        return True
    while stack:
        v = stack.pop()
        for w in succ[v]:
            if w == a or w in seen:
                continue
            if w == b:
                return False
            seen.add(w)
            stack.append(w)
    return b != entry
