"""`dump`: what pydantic's `model_dump(mode="json")` produces, computed by walking the declared
fields in pure Python so that symbolic leaves survive; `deep_eq`: structural equality of two such
documents as a symbolic boolean.  Validated against the real `model_dump_json` on every
concrete replay (see `dump_checked`)."""
import enum
import json

import pydantic

from vrf.symx import sym
from vrf.symx.values import SymEnum, is_sym


def dump(x):
    if isinstance(x, pydantic.RootModel):
        return dump(x.root)
    if isinstance(x, pydantic.BaseModel):
        out = {}
        for name in type(x).model_fields:
            out[name] = dump(getattr(x, name))
        extra = getattr(x, "__pydantic_extra__", None)
        if extra:
            for k, v in extra.items():
                out[k] = dump(v)
        return out
    if isinstance(x, SymEnum):
        return x
    if isinstance(x, enum.Enum):
        return x.value
    if is_sym(x) or x is None or isinstance(x, str | int | float | bool):
        return x
    if isinstance(x, list | tuple):
        return [dump(e) for e in x]
    if isinstance(x, set | frozenset):
        return sorted(dump(e) for e in x)
    if isinstance(x, dict):
        return {k: dump(v) for k, v in x.items()}
    if hasattr(x, "major") and hasattr(x, "minor") and hasattr(x, "patch"):  # semver Version
        return str(x)
    raise TypeError(f"dump: unsupported {type(x).__name__}")


def deep_eq(a, b):
    """Symbolic structural equality of two dumped documents."""
    if isinstance(a, dict) or isinstance(b, dict):
        if not (isinstance(a, dict) and isinstance(b, dict)) or sorted(a.keys()) != sorted(b.keys()):
            return False
        r = True
        for k in a:
            r = sym.and_(r, deep_eq(a[k], b[k]))
        return r
    if isinstance(a, list) or isinstance(b, list):
        if not (isinstance(a, list) and isinstance(b, list)) or len(a) != len(b):
            return False
        r = True
        for x, y in zip(a, b):
            r = sym.and_(r, deep_eq(x, y))
        return r
    if isinstance(a, SymEnum) or isinstance(b, SymEnum):
        if isinstance(a, SymEnum) and isinstance(b, SymEnum):
            return a == b
        e, v = (a, b) if isinstance(a, SymEnum) else (b, a)
        r = False
        for m in e.members:
            if m.value == v:
                r = e == m
        return r
    if a is None or b is None:
        return a is None and b is None
    if isinstance(a, bool) != isinstance(b, bool) and not (is_sym(a) or is_sym(b)):
        return False
    return a == b


def real_dump(model):
    return json.loads(model.model_dump_json())


def dump_checked(model):
    """dump(), cross-checked against pydantic's own encoder when running concretely."""
    d = dump(model)
    if not sym.symbolic():
        r = real_dump(type(model).model_validate(model.model_dump()) if False else model)
        if r != json.loads(json.dumps(d)):
            raise AssertionError(f"dump stub disagrees with pydantic: {d!r} vs {r!r}")
    return d
