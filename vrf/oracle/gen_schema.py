"""Subprocess helper: regenerate ONE of the four schema documents from the current models
(the steps of scripts/generate_schema.py; one process per config because the rebuild mutates the
global model config).  usage: python -m vrf.oracle.gen_schema <testing|hugr> <strict|lax>"""
import json
import sys

from pydantic import ConfigDict
from pydantic.json_schema import models_json_schema


def main():
    which, mode = sys.argv[1], sys.argv[2]
    from hugr._serialization.extension import Extension, Package
    from hugr._serialization.serial_hugr import SerialHugr
    from hugr._serialization.testing_hugr import TestingHugr
    schema = TestingHugr if which == "testing" else SerialHugr
    config = ConfigDict(strict=True, extra="forbid") if mode == "strict" else ConfigDict(strict=False, extra="allow")
    version = schema.get_version()
    schema._pydantic_rebuild(config, force=True)
    _, top = models_json_schema([(s, "validation") for s in [schema, Extension, Package]], title="HUGR schema")
    from hugr._serialization.serial_hugr import serialization_version
    json.dump({"version": version, "serialization_version": serialization_version(), "ext_version": Extension.get_version(),
               "package_version": Package.get_version(), "schema": top}, sys.stdout)


if __name__ == "__main__":
    main()
