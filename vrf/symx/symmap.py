"""SymMap: a dict whose contents are a pair of z3 arrays (presence, value), i.e. a map of
*unbounded* size and arbitrary contents.  Used as the symbolic pre-state of inductive-step
lemmas.  Invariants over the map are not asserted with quantifiers (z3 answers `unknown` on
the sat side); instead the harness registers an `on_read` hook that asserts the invariant
instance for every index term at which a base array is read (array-property-fragment style
instantiation: complete for the invariants used here, which only relate a[i] to b[a[i]]).

Keys / values go through codecs: Python object <-> tuple of z3 Int terms.
In concrete (replay) mode `make()` returns a plain dict built from the model restricted to
the index terms that were touched on the symbolic path.
"""
from __future__ import annotations

import z3

from . import ctx as _ctx
from . import sym as _sym
from .values import SymInt, to_z3_int, wrap_int


class IntCodec:
    """Python int <-> one Int term."""
    arity = 1

    def enc(self, obj):
        z = to_z3_int(obj)
        if z is None or isinstance(obj, bool):
            return None
        return (z,)

    def dec(self, terms):
        return wrap_int(terms[0])

    def from_py(self, tup):
        return tup[0]

    def to_py(self, obj):
        return [obj]


class SymMap:
    def __init__(self, name, kc, vc):
        self.name = name
        self.kc = kc
        self.vc = vc
        isort = [z3.IntSort()] * kc.arity
        # base contents: uninterpreted functions (= arrays of any arity); updates: explicit overlay
        self.base_present = z3.Function(f"{name}.P", *isort, z3.BoolSort())
        self.base_val = [z3.Function(f"{name}.V{j}", *isort, z3.IntSort()) for j in range(vc.arity)]
        self.overlay: list[tuple[tuple, object, tuple | None]] = []  # (key terms, present z3 bool, val terms)
        self.size_delta = z3.IntVal(0)
        self.base_size = z3.Int(f"{name}.size")
        self.touched: list[tuple] = []
        self.on_read = None  # callable(key_terms) -> None ; asserts invariant instances
        self._in_hook = False

    # -- raw symbolic reads ------------------------------------------------
    def _touch(self, kt):
        for t in self.touched:
            if all(z3.eq(a, b) for a, b in zip(t, kt)):
                return
        self.touched.append(kt)
        if self.on_read is not None and not self._in_hook:
            self._in_hook = True
            try:
                self.on_read(self, kt)
            finally:
                self._in_hook = False

    def base_has(self, kt):
        self._touch(kt)
        return self.base_present(*kt)

    def base_get(self, kt):
        self._touch(kt)
        return tuple(f(*kt) for f in self.base_val)

    def z_has(self, kt):
        """z3 Bool: key present in the *current* state."""
        r = self.base_has(kt)
        for (ok, pres, _val) in self.overlay:
            r = z3.If(_eq(ok, kt), pres, r)
        return z3.simplify(r)

    def z_get(self, kt):
        r = list(self.base_get(kt))
        for (ok, _pres, val) in self.overlay:
            if val is not None:
                c = _eq(ok, kt)
                r = [z3.If(c, v, old) for v, old in zip(val, r)]
        return tuple(z3.simplify(x) for x in r)

    # -- dict API ----------------------------------------------------------------
    def _k(self, key):
        kt = self.kc.enc(key)
        return kt

    def __contains__(self, key):
        kt = self._k(key)
        if kt is None:
            return False
        return _ctx.cur().decide(self.z_has(kt))

    def has(self, key):
        """Symbolic membership (no fork) for specifications."""
        kt = self._k(key)
        if kt is None:
            return False
        from .values import wrap_bool
        return wrap_bool(self.z_has(kt))

    def get(self, key, default=None):
        kt = self._k(key)
        if kt is None:
            return default
        if _ctx.cur().decide(self.z_has(kt)):
            return self.vc.dec(self.z_get(kt))
        return default

    def __getitem__(self, key):
        kt = self._k(key)
        if kt is None or not _ctx.cur().decide(self.z_has(kt)):
            raise KeyError(key)
        return self.vc.dec(self.z_get(kt))

    def at(self, key):
        """Value at key without presence test (specification use)."""
        return self.vc.dec(self.z_get(self._k(key)))

    def __setitem__(self, key, value):
        kt = self._k(key)
        vt = self.vc.enc(value)
        if kt is None or vt is None:
            raise _ctx.Unsupported(f"SymMap {self.name}: key/value outside codec: {key!r} -> {value!r}")
        was = self.z_has(kt)
        self.size_delta = z3.simplify(self.size_delta + z3.If(was, 0, 1))
        self.overlay.append((kt, z3.BoolVal(True), vt))

    def __delitem__(self, key):
        kt = self._k(key)
        if kt is None or not _ctx.cur().decide(self.z_has(kt)):
            raise KeyError(key)
        self.size_delta = z3.simplify(self.size_delta - 1)
        self.overlay.append((kt, z3.BoolVal(False), None))

    def pop(self, key, *default):
        try:
            v = self[key]
        except KeyError:
            if default:
                return default[0]
            raise
        del self[key]
        return v

    def sym_len(self):
        return wrap_int(self.base_size + self.size_delta)

    def __len__(self):
        return _ctx.cur().concretize_int(self.base_size + self.size_delta)

    def __iter__(self):
        raise _ctx.Unsupported(f"iteration over unbounded SymMap {self.name}")

    def items(self):
        raise _ctx.Unsupported(f"iteration over unbounded SymMap {self.name}")

    keys = values = items

    def snapshot(self):
        s = SymMap.__new__(SymMap)
        s.__dict__.update(self.__dict__)
        s.overlay = list(self.overlay)
        s.touched = self.touched  # shared: base reads
        return s

    # -- model extraction --------------------------------------------------------
    def extract(self, model):
        out = []
        seen = set()
        for kt in list(self.touched):
            kv = tuple(_ctx.z3_to_py(model.eval(t, model_completion=True)) for t in kt)
            if kv in seen:
                continue
            seen.add(kv)
            kz = [z3.IntVal(x) for x in kv]
            if z3.is_true(model.eval(self.base_present(*kz), model_completion=True)):
                vv = tuple(_ctx.z3_to_py(model.eval(f(*kz), model_completion=True)) for f in self.base_val)
                out.append([list(kv), list(vv)])
        return out


def _eq(a, b):
    return z3.And(*[x == y for x, y in zip(a, b)]) if len(a) > 1 else a[0] == b[0]


def make(name, kc=None, vc=None):
    """Declare a symbolic map input (symbolic mode) / rebuild the concrete dict (replay mode)."""
    kc = kc or IntCodec()
    vc = vc or IntCodec()
    if _sym.CONC is not None:
        d = {}
        for k, v in _sym.CONC.valuation[name]:
            d[kc.from_py(tuple(k))] = vc.from_py(tuple(v))
        return d
    c = _ctx.cur()
    m = SymMap(name, kc, vc)
    c.extractors[name] = m.extract
    c.add(m.base_size >= 0)
    return m
