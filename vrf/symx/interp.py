"""symx: AST-level symbolic interpreter for the Python subset hugr-py is written in.

Functions defined in the allowed module prefixes (by default ``hugr.`` and the
harness packages) are interpreted from their *current source*
(``inspect.getsource`` -> ``ast``); everything else runs natively on real Python
objects whose leaves may be symbolic proxies (values.py).  The interpreter itself
handles everything where CPython would bypass the proxies: ``isinstance``/``type``
on symbolic scalars, ``match`` class patterns, ``is`` on symbolic booleans,
f-strings / ``str()`` of symbolic ints, truthiness tests (fork via ctx.decide).
"""
from __future__ import annotations

import ast
import builtins
import dataclasses
import enum
import functools
import hashlib
import importlib
import inspect
import operator
import sys
import textwrap
import types
from typing import Any

import z3

from . import ctx as _ctx
from .ctx import BoundExceeded, SymxSignal, Unsupported
from .values import (SymBool, SymChars, SymEnum, SymInt, SymStr, int_to_str, is_sym, to_z3_bool, to_z3_int,
                     wrap_bool, wrap_int)

ALLOWED_PREFIXES = ["hugr.", "vrf.harness", "vrf.oracle"]
NATIVE_MODULES: set[str] = set()  # module names (exact) forced native


class StopIterProxy(Exception):
    """Carries a StopIteration raised by interpreted code across generator frames (PEP 479)."""

    def __init__(self, orig):
        super().__init__()
        self.orig = orig


class _Cell:
    __slots__ = ("v",)

    def __init__(self, v=None):
        self.v = v


_UNSET = object()


class Frame:
    __slots__ = ("locals", "globals", "parent", "func", "defcls", "args0", "globals_decl", "nonlocal_decl",
                 "cells", "is_comp")

    def __init__(self, globals_, parent=None, func=None, defcls=None, cells=None, is_comp=False):
        self.locals: dict[str, Any] = {}
        self.globals = globals_
        self.parent = parent  # lexically enclosing Frame (closures / comprehensions)
        self.func = func
        self.defcls = defcls
        self.args0 = _UNSET
        self.globals_decl: set[str] = set()
        self.nonlocal_decl: set[str] = set()
        self.cells = cells or {}
        self.is_comp = is_comp

    def lookup(self, name):
        f = self
        while f is not None:
            if name in f.locals:
                return f.locals[name]
            if name in f.cells:
                try:
                    return f.cells[name].cell_contents
                except ValueError:
                    raise NameError(name) from None
            f = f.parent
        g = self.globals
        if name in g:
            return g[name]
        b = g.get("__builtins__", builtins)
        if isinstance(b, dict):
            if name in b:
                return b[name]
        elif hasattr(b, name):
            return getattr(b, name)
        if hasattr(builtins, name):
            return getattr(builtins, name)
        raise NameError(f"name '{name}' is not defined")

    def store(self, name, value):
        if name in self.globals_decl:
            self.globals[name] = value
            return
        if name in self.nonlocal_decl:
            f = self.parent
            while f is not None:
                if name in f.locals:
                    f.locals[name] = value
                    return
                if name in f.cells:
                    f.cells[name].cell_contents = value
                    return
                f = f.parent
            raise Unsupported(f"nonlocal {name} not found")
        self.locals[name] = value

    def func_frame(self):
        f = self
        while f.is_comp and f.parent is not None:
            f = f.parent
        return f


class InterpFunction:
    """A function (def/lambda) created by interpreted code; callable natively too."""

    def __init__(self, interp, node, frame, name):
        self.interp = interp
        self.node = node
        self.frame = frame
        self.__name__ = name
        self.__qualname__ = name
        self.__module__ = frame.globals.get("__name__", "?")
        self.defaults = None
        self.kw_defaults = None

    def __call__(self, *args, **kwargs):
        return self.interp.call_interp_function(self, args, kwargs)

    def __get__(self, obj, objtype=None):
        if obj is None:
            return self
        return types.MethodType(self, obj)


_BINOPS = {
    ast.Add: operator.add, ast.Sub: operator.sub, ast.Mult: operator.mul, ast.Div: operator.truediv,
    ast.FloorDiv: operator.floordiv, ast.Mod: operator.mod, ast.Pow: operator.pow, ast.LShift: operator.lshift,
    ast.RShift: operator.rshift, ast.BitOr: operator.or_, ast.BitXor: operator.xor, ast.BitAnd: operator.and_,
    ast.MatMult: operator.matmul,
}
_IBINOPS = {
    ast.Add: operator.iadd, ast.Sub: operator.isub, ast.Mult: operator.imul, ast.Div: operator.itruediv,
    ast.FloorDiv: operator.ifloordiv, ast.Mod: operator.imod, ast.Pow: operator.ipow, ast.LShift: operator.ilshift,
    ast.RShift: operator.irshift, ast.BitOr: operator.ior, ast.BitXor: operator.ixor, ast.BitAnd: operator.iand,
}
_CMPOPS = {
    ast.Eq: operator.eq, ast.NotEq: operator.ne, ast.Lt: operator.lt, ast.LtE: operator.le,
    ast.Gt: operator.gt, ast.GtE: operator.ge,
}

_SINGLE_POS_MATCH = (bool, bytearray, bytes, dict, float, frozenset, int, list, set, str, tuple)


def _has_yield(node) -> bool:
    for n in ast.walk(node):
        if isinstance(n, ast.Yield | ast.YieldFrom):
            # ignore yields inside nested defs/lambdas
            return True
    return False


class _FuncInfo:
    __slots__ = ("node", "is_gen", "defcls", "file", "line", "sha", "qual")


class Interp:
    def __init__(self):
        self._cache: dict[Any, _FuncInfo | None] = {}
        self.intercepts: dict[int, Any] = {}
        self.intercept_objs: list[Any] = []
        self.class_stubs: list[Any] = []  # callables (cls, args, kwargs) -> result | NotImplemented
        self.concretize_at: dict[int, Any] = {}  # id(native callable) -> callable: symbolic scalar args are realised first
        self.depth = 0
        self.max_depth = 400
        self._install_builtin_intercepts()

    # ------------------------------------------------------------------
    # function discovery
    # ------------------------------------------------------------------
    def interpretable(self, f) -> _FuncInfo | None:
        code = getattr(f, "__code__", None)
        if code is None:
            return None
        key = code
        if key in self._cache:
            return self._cache[key]
        info = None
        mod = getattr(f, "__module__", None) or ""
        if mod not in NATIVE_MODULES and any(mod == p.rstrip(".") or mod.startswith(p) for p in ALLOWED_PREFIXES):
            fn = code.co_filename
            if not fn.startswith("<") and getattr(f, "_symx_native", False) is False:
                try:
                    src = inspect.getsource(code)
                    tree = ast.parse(textwrap.dedent(src))
                    node = tree.body[0]
                    if isinstance(node, ast.FunctionDef) and node.name == code.co_name:
                        info = _FuncInfo()
                        info.node = node
                        info.is_gen = bool(code.co_flags & inspect.CO_GENERATOR)
                        info.file = fn
                        info.line = code.co_firstlineno
                        info.sha = hashlib.sha1(src.encode()).hexdigest()[:12]
                        info.qual = f"{mod}.{f.__qualname__}"
                        info.defcls = _UNSET
                    elif isinstance(node, ast.Expr) or True:
                        # lambdas etc: run natively
                        info = None
                except (OSError, TypeError, SyntaxError, IndentationError):
                    info = None
        self._cache[key] = info
        return info

    def _defcls(self, f, info):
        if info.defcls is _UNSET:
            cls = None
            qn = f.__qualname__
            if "." in qn and "<locals>" not in qn:
                obj = sys.modules.get(f.__module__)
                try:
                    for part in qn.split(".")[:-1]:
                        obj = getattr(obj, part)
                    cls = obj if isinstance(obj, type) else None
                except AttributeError:
                    cls = None
            info.defcls = cls
        return info.defcls

    # ------------------------------------------------------------------
    # calls
    # ------------------------------------------------------------------
    def concretize_boundary(self, f):
        """Declare a native (C-level) function at whose boundary symbolic scalars are realised by forking."""
        self.concretize_at[id(f)] = f

    def call(self, f, args=(), kwargs=None):
        kwargs = kwargs or {}
        if id(f) in self.concretize_at:
            from .sym import concretize
            _ctx.cur().stats.stubs.add(f"realise-at-boundary:{getattr(f, '__module__', '')}.{getattr(f, '__name__', f)}")
            args = tuple(concretize(a) for a in args)
            kwargs = {k: concretize(v) for k, v in kwargs.items()}
            return f(*args, **kwargs)
        ic = self.intercepts.get(id(f))
        if ic is not None:
            r = ic(self, args, kwargs)
            if r is not NotImplemented:
                return r
        if isinstance(f, InterpFunction):
            return self.call_interp_function(f, args, kwargs)
        if isinstance(f, types.MethodType):
            func = f.__func__
            if isinstance(func, InterpFunction):
                return self.call_interp_function(func, (f.__self__, *args), kwargs)
            info = self.interpretable(func)
            if info is not None:
                return self.call_real_function(func, info, (f.__self__, *args), kwargs)
            ic = self.intercepts.get(id(func))
            if ic is not None:
                r = ic(self, (f.__self__, *args), kwargs)
                if r is not NotImplemented:
                    return r
            return f(*args, **kwargs)
        if isinstance(f, types.FunctionType):
            info = self.interpretable(f)
            if info is not None:
                return self.call_real_function(f, info, args, kwargs)
            return f(*args, **kwargs)
        if isinstance(f, type):
            return self.instantiate(f, args, kwargs)
        if isinstance(f, functools.partial):
            return self.call(f.func, (*f.args, *args), {**f.keywords, **kwargs})
        if isinstance(f, types.BuiltinMethodType) and isinstance(getattr(f, "__self__", None), str):
            if f.__name__ == "join" and len(args) == 1:
                parts = list(self._iter(args[0]))
                if any(isinstance(p, SymStr | SymChars) for p in parts):
                    return self._join(f.__self__, parts)
                return f.__self__.join(parts)
        # callable instance with interpretable __call__
        if not isinstance(f, types.BuiltinFunctionType | types.BuiltinMethodType | types.MethodWrapperType
                          | types.WrapperDescriptorType | types.MethodDescriptorType):
            callm = _mro_lookup(type(f), "__call__")
            if isinstance(callm, types.FunctionType) and self.interpretable(callm):
                return self.call_real_function(callm, self.interpretable(callm), (f, *args), kwargs)
        return f(*args, **kwargs)

    def instantiate(self, cls, args, kwargs):
        for stub in self.class_stubs:
            r = stub(self, cls, args, kwargs)
            if r is not NotImplemented:
                return r
        mod = getattr(cls, "__module__", "")
        if not any(mod.startswith(p) for p in ALLOWED_PREFIXES):
            if isinstance(cls, enum.EnumMeta) and len(args) == 1 and not kwargs and is_sym(args[0]):
                for m in cls:
                    if self.truth(operator.eq(args[0], m.value)):
                        return m
                raise ValueError(f"<symbolic> is not a valid {cls.__qualname__}")
            return cls(*args, **kwargs)
        if issubclass(cls, enum.Enum):
            if len(args) == 1 and not kwargs and is_sym(args[0]):
                # Enum(value) on a symbolic value: fork per member, else ValueError (as enum does)
                for m in cls:
                    if self.truth(operator.eq(args[0], m.value)):
                        return m
                raise ValueError(f"<symbolic> is not a valid {cls.__qualname__}")
            return cls(*args, **kwargs)
        if type(cls) is not type and not _plain_metaclass(cls):
            return cls(*args, **kwargs)
        new = _mro_lookup(cls, "__new__")
        init = _mro_lookup(cls, "__init__")
        if new is object.__new__:
            obj = object.__new__(cls)
        else:
            newf = new.__func__ if isinstance(new, staticmethod) else new
            if isinstance(newf, types.FunctionType) and self.interpretable(newf):
                obj = self.call_real_function(newf, self.interpretable(newf), (cls, *args), kwargs)
            else:
                return cls(*args, **kwargs)
            if not isinstance(obj, cls):
                return obj
        if isinstance(init, types.FunctionType):
            info = self.interpretable(init)
            if info is not None:
                self.call_real_function(init, info, (obj, *args), kwargs)
            else:
                init(obj, *args, **kwargs)  # dataclass-generated or foreign
        else:
            init(obj, *args, **kwargs)
        return obj

    def call_real_function(self, f, info, args, kwargs):
        st = _ctx.cur().stats
        if info.qual not in st.functions:
            st.functions[info.qual] = {"file": info.file, "line": info.line, "sha1": info.sha}
        cells = {}
        if f.__closure__:
            for name, cell in zip(f.__code__.co_freevars, f.__closure__):
                cells[name] = cell
        frame = Frame(f.__globals__, None, f, self._defcls(f, info), cells)
        self.bind_args(info.node.args, frame, args, kwargs, f.__defaults__, f.__kwdefaults__, f.__name__)
        if args:
            frame.args0 = args[0]
        if info.is_gen:
            return self._make_generator(info.node.body, frame)
        return self._run_body(info.node.body, frame)

    def call_interp_function(self, fn: InterpFunction, args, kwargs):
        node = fn.node
        frame = Frame(fn.frame.globals, fn.frame, fn, fn.frame.func_frame().defcls)
        self.bind_args(node.args, frame, args, kwargs, fn.defaults, fn.kw_defaults, fn.__name__)
        if args:
            frame.args0 = args[0]
        if isinstance(node, ast.Lambda):
            return self.eval(node.body, frame)
        if _has_yield_shallow(node):
            return self._make_generator(node.body, frame)
        return self._run_body(node.body, frame)

    def _run_body(self, body, frame):
        self.depth += 1
        if self.depth > self.max_depth:
            self.depth -= 1
            raise BoundExceeded("interpreter recursion depth")
        try:
            g = self.exec_block(body, frame)
            try:
                next(g)
            except StopIteration as e:
                st = e.value
                if st is not None and st[0] == "return":
                    return st[1]
                return None
            raise Unsupported("yield outside generator function")
        except StopIterProxy as p:
            raise p.orig from None
        finally:
            self.depth -= 1

    def _make_generator(self, body, frame):
        interp = self

        def gen():
            try:
                st = yield from interp.exec_block(body, frame)
            except StopIterProxy as p:
                raise RuntimeError("generator raised StopIteration") from p.orig
            if st is not None and st[0] == "return":
                return st[1]
            return None

        return gen()

    def bind_args(self, a: ast.arguments, frame, args, kwargs, defaults, kwdefaults, fname):
        pos = [x.arg for x in a.posonlyargs] + [x.arg for x in a.args]
        npos = len(pos)
        loc = frame.locals
        kwargs = dict(kwargs)
        if len(args) > npos and a.vararg is None:
            raise TypeError(f"{fname}() takes {npos} positional arguments but {len(args)} were given")
        for name, v in zip(pos, args):
            loc[name] = v
        if a.vararg is not None:
            loc[a.vararg.arg] = tuple(args[npos:])
        defaults = defaults or ()
        first_def = npos - len(defaults)
        for i in range(min(len(args), npos), npos):
            name = pos[i]
            if name in kwargs:
                loc[name] = kwargs.pop(name)
            elif i >= first_def:
                loc[name] = defaults[i - first_def]
            else:
                raise TypeError(f"{fname}() missing required positional argument: '{name}'")
        for name in pos[: min(len(args), npos)]:
            if name in kwargs:
                raise TypeError(f"{fname}() got multiple values for argument '{name}'")
        kwdefaults = kwdefaults or {}
        for x in a.kwonlyargs:
            if x.arg in kwargs:
                loc[x.arg] = kwargs.pop(x.arg)
            elif x.arg in kwdefaults:
                loc[x.arg] = kwdefaults[x.arg]
            else:
                raise TypeError(f"{fname}() missing required keyword-only argument: '{x.arg}'")
        if a.kwarg is not None:
            loc[a.kwarg.arg] = kwargs
        elif kwargs:
            raise TypeError(f"{fname}() got an unexpected keyword argument '{next(iter(kwargs))}'")

    # ------------------------------------------------------------------
    # truthiness / identity / isinstance
    # ------------------------------------------------------------------
    def truth(self, v) -> bool:
        if isinstance(v, SymBool):
            return _ctx.cur().decide(v.z)
        if isinstance(v, SymInt):
            return _ctx.cur().decide(v.z != 0)
        if isinstance(v, SymStr):
            return _ctx.cur().decide(z3.Length(v.z) > 0)
        if isinstance(v, SymChars):
            return len(v.cells) > 0
        if isinstance(v, bool):
            return v
        if v is None:
            return False
        # objects of interpretable classes with __bool__/__len__
        t = type(v)
        bm = _mro_lookup(t, "__bool__")
        if isinstance(bm, types.FunctionType) and self.interpretable(bm):
            return self.truth(self.call(bm, (v,)))
        if bm is None:
            lm = _mro_lookup(t, "__len__")
            if isinstance(lm, types.FunctionType) and self.interpretable(lm):
                n = self.call(lm, (v,))
                return self.truth(n != 0)
        return bool(v)

    def not_(self, v):
        if isinstance(v, SymBool):
            return wrap_bool(z3.Not(v.z))
        if isinstance(v, SymInt):
            return wrap_bool(v.z == 0)
        return not self.truth(v)

    def is_(self, a, b):
        if a is b:
            return True
        if isinstance(a, SymEnum) or isinstance(b, SymEnum):
            if a is None or b is None:
                return False
            return operator.eq(a, b)
        if isinstance(a, SymBool) and isinstance(b, bool):
            return wrap_bool(a.z == z3.BoolVal(b))
        if isinstance(b, SymBool) and isinstance(a, bool):
            return wrap_bool(b.z == z3.BoolVal(a))
        return False

    def isinstance_(self, x, t):
        if isinstance(x, SymEnum):
            return issubclass(x.cls, t)
        if is_sym(x):
            ts = t if isinstance(t, tuple) else (t,)
            flat = []
            for q in ts:
                if isinstance(q, types.UnionType):
                    flat.extend(q.__args__)
                elif isinstance(q, tuple):
                    flat.extend(q)
                else:
                    flat.append(q)
            if isinstance(x, SymInt):
                return any(q in (int, object) for q in flat)
            if isinstance(x, SymBool):
                return any(q in (bool, int, object) for q in flat)
            if isinstance(x, SymStr | SymChars):
                return any(q in (str, object) for q in flat)
        return isinstance(x, t)

    def type_(self, x):
        if isinstance(x, SymEnum):
            return x.cls
        if isinstance(x, SymInt):
            return int
        if isinstance(x, SymBool):
            return bool
        if isinstance(x, SymStr | SymChars):
            return str
        return type(x)

    def str_(self, x):
        if isinstance(x, SymEnum):
            return self.str_(x.concretize())
        if isinstance(x, SymInt):
            return int_to_str(x)
        if isinstance(x, SymBool):
            return "True" if self.truth(x) else "False"
        if isinstance(x, SymStr | SymChars):
            return x
        if isinstance(x, str):
            return x
        t = type(x)
        sm = _mro_lookup(t, "__str__")
        if isinstance(sm, types.FunctionType) and self.interpretable(sm):
            return self.call(sm, (x,))
        if sm is object.__str__ or sm is None:
            return self.repr_(x)
        if isinstance(x, list | tuple | dict | set | frozenset):
            return self.repr_(x)
        return str(x)

    def repr_(self, x):
        if isinstance(x, SymEnum):
            return self.repr_(x.concretize())
        if isinstance(x, SymInt):
            return int_to_str(x)
        if isinstance(x, SymBool):
            return "True" if self.truth(x) else "False"
        if isinstance(x, SymStr):
            return "'" + x + "'"
        t = type(x)
        rm = _mro_lookup(t, "__repr__")
        if isinstance(rm, types.FunctionType) and self.interpretable(rm):
            return self.call(rm, (x,))
        if t is list:
            return "[" + self._join(", ", [self.repr_(e) for e in x]) + "]"
        if t is tuple:
            if len(x) == 1:
                return "(" + self.repr_(x[0]) + ",)"
            return "(" + self._join(", ", [self.repr_(e) for e in x]) + ")"
        if t is dict:
            return "{" + self._join(", ", [self.repr_(k) + ": " + self.repr_(v) for k, v in x.items()]) + "}"
        if dataclasses.is_dataclass(x) and not isinstance(x, type) and getattr(rm, "__qualname__", "").endswith("__repr__") \
                and not getattr(rm, "__code__", None) is None and rm.__code__.co_filename.startswith("<"):
            parts = [f.name + "=" + self.repr_(getattr(x, f.name)) for f in dataclasses.fields(x) if f.repr]
            return t.__qualname__ + "(" + self._join(", ", parts) + ")"
        return repr(x)

    def _join(self, sep, parts):
        out = ""
        for i, p in enumerate(parts):
            if i:
                out = out + sep
            out = out + p
        return out

    # ------------------------------------------------------------------
    # attribute access
    # ------------------------------------------------------------------
    def getattr_(self, obj, name):
        if is_sym(obj):
            return getattr(obj, name)
        if isinstance(obj, SymEnum):
            if name in ("value", "name"):
                return getattr(obj, name)
            m = _mro_lookup(obj.cls, name)
            if isinstance(m, types.FunctionType) and self.interpretable(m):
                return types.MethodType(m, obj)  # interpreted with a symbolic self
            return getattr(obj, name)
        if not isinstance(obj, type):
            t = type(obj)
            ca = _mro_lookup(t, name)
            if isinstance(ca, property):
                fget = ca.fget
                if isinstance(fget, types.FunctionType) and self.interpretable(fget):
                    return self.call(fget, (obj,))
            elif isinstance(ca, functools.cached_property):
                d = getattr(obj, "__dict__", None)
                if d is not None and name in d:
                    return d[name]
                if isinstance(ca.func, types.FunctionType) and self.interpretable(ca.func):
                    v = self.call(ca.func, (obj,))
                    if d is not None:
                        d[name] = v
                    return v
        return getattr(obj, name)

    # ------------------------------------------------------------------
    # statements
    # ------------------------------------------------------------------
    def exec_block(self, stmts, frame):
        for s in stmts:
            st = yield from self.exec_stmt(s, frame)
            if st is not None:
                return st
        return None

    def exec_stmt(self, s, frame):
        m = getattr(self, "s_" + type(s).__name__, None)
        if m is None:
            raise Unsupported(f"statement {type(s).__name__} at line {getattr(s, 'lineno', '?')}")
        return (yield from m(s, frame))

    def s_Expr(self, s, frame):
        v = s.value
        if isinstance(v, ast.Yield):
            yield (self.geval(v.value, frame) if v.value is not None else None)
            return None
        if isinstance(v, ast.YieldFrom):
            yield from self._iter(self.geval(v.value, frame))
            return None
        self.geval(v, frame)
        return None
        yield  # pragma: no cover

    def s_Pass(self, s, frame):
        return None
        yield

    def s_Return(self, s, frame):
        return ("return", self.geval(s.value, frame) if s.value is not None else None)
        yield

    def s_Break(self, s, frame):
        return ("break",)
        yield

    def s_Continue(self, s, frame):
        return ("continue",)
        yield

    def s_Global(self, s, frame):
        frame.globals_decl.update(s.names)
        return None
        yield

    def s_Nonlocal(self, s, frame):
        frame.nonlocal_decl.update(s.names)
        return None
        yield

    def s_Assign(self, s, frame):
        if isinstance(s.value, ast.Yield):
            v = yield (self.geval(s.value.value, frame) if s.value.value is not None else None)
        elif isinstance(s.value, ast.YieldFrom):
            v = yield from self._iter(self.geval(s.value.value, frame))
        else:
            v = self.geval(s.value, frame)
        for t in s.targets:
            self.assign(t, v, frame)
        return None

    def s_AnnAssign(self, s, frame):
        if s.value is not None:
            self.assign(s.target, self.geval(s.value, frame), frame)
        return None
        yield

    def s_AugAssign(self, s, frame):
        t = s.target
        op = _IBINOPS[type(s.op)]
        if isinstance(t, ast.Name):
            cur = frame.lookup(t.id)
            frame.store(t.id, op(cur, self.geval(s.value, frame)))
        elif isinstance(t, ast.Attribute):
            obj = self.geval(t.value, frame)
            cur = self.getattr_(obj, t.attr)
            setattr(obj, t.attr, op(cur, self.geval(s.value, frame)))
        elif isinstance(t, ast.Subscript):
            obj = self.geval(t.value, frame)
            idx = self.geval(t.slice, frame)
            cur = self.subscript(obj, idx)
            self.setitem(obj, idx, op(cur, self.geval(s.value, frame)))
        else:
            raise Unsupported("augassign target")
        return None
        yield

    def s_Delete(self, s, frame):
        for t in s.targets:
            if isinstance(t, ast.Name):
                del frame.locals[t.id]
            elif isinstance(t, ast.Attribute):
                delattr(self.geval(t.value, frame), t.attr)
            elif isinstance(t, ast.Subscript):
                obj = self.geval(t.value, frame)
                idx = self.geval(t.slice, frame)
                self.delitem(obj, idx)
            else:
                raise Unsupported("del target")
        return None
        yield

    def s_If(self, s, frame):
        if self.truth(self.geval(s.test, frame)):
            return (yield from self.exec_block(s.body, frame))
        return (yield from self.exec_block(s.orelse, frame))

    def s_While(self, s, frame):
        n = 0
        bound = _ctx.cur().loop_bound
        while self.truth(self.geval(s.test, frame)):
            n += 1
            if n > bound:
                raise BoundExceeded(f"while loop at line {s.lineno} exceeded {bound} iterations")
            st = yield from self.exec_block(s.body, frame)
            if st is not None:
                if st[0] == "break":
                    return None
                if st[0] == "continue":
                    continue
                return st
        return (yield from self.exec_block(s.orelse, frame))

    def s_For(self, s, frame):
        it = self._iter(self.geval(s.iter, frame))
        for v in it:
            self.assign(s.target, v, frame)
            st = yield from self.exec_block(s.body, frame)
            if st is not None:
                if st[0] == "break":
                    return None
                if st[0] == "continue":
                    continue
                return st
        return (yield from self.exec_block(s.orelse, frame))

    def s_Assert(self, s, frame):
        if not self.truth(self.geval(s.test, frame)):
            if s.msg is not None:
                raise AssertionError(self.geval(s.msg, frame))
            raise AssertionError()
        return None
        yield

    def s_Raise(self, s, frame):
        if s.exc is None:
            raise  # re-raise active exception  # noqa: PLE0704
        exc = self.geval(s.exc, frame)
        if isinstance(exc, type):
            exc = self.call(exc, ())
        if s.cause is not None:
            cause = self.geval(s.cause, frame)
            raise exc from cause
        raise exc
        yield

    def s_Try(self, s, frame):
        try:
            try:
                st = yield from self.exec_block(s.body, frame)
            except SymxSignal:
                raise
            except GeneratorExit:
                raise
            except BaseException as e0:  # noqa: BLE001
                e = e0.orig if isinstance(e0, StopIterProxy) else e0
                handled = False
                for h in s.handlers:
                    if h.type is None:
                        match = True
                    else:
                        et = self.geval(h.type, frame)
                        match = isinstance(e, et)
                    if match:
                        if h.name:
                            frame.store(h.name, e)
                        st = yield from self.exec_block(h.body, frame)
                        handled = True
                        break
                if not handled:
                    raise
                return st
            else:
                if st is not None:
                    return st
                st = yield from self.exec_block(s.orelse, frame)
                return st
        finally:
            if s.finalbody:
                fst = yield from self.exec_block(s.finalbody, frame)
                if fst is not None:
                    return fst  # noqa: B012

    def s_With(self, s, frame):
        if len(s.items) != 1:
            # `with a, b: body`  ==  `with a: with b: body`
            inner = ast.With(items=s.items[1:], body=s.body)
            ast.copy_location(inner, s)
            outer = ast.With(items=[s.items[0]], body=[inner])
            ast.copy_location(outer, s)
            return (yield from self.s_With(outer, frame))
        item = s.items[0]
        mgr = self.geval(item.context_expr, frame)
        enter = self.getattr_(mgr, "__enter__")
        exit_ = self.getattr_(mgr, "__exit__")
        v = self.call(enter, ())
        if item.optional_vars is not None:
            self.assign(item.optional_vars, v, frame)
        try:
            st = yield from self.exec_block(s.body, frame)
        except SymxSignal:
            raise
        except GeneratorExit:
            raise
        except BaseException as e:  # noqa: BLE001
            if not self.truth(self.call(exit_, (type(e), e, e.__traceback__))):
                raise
            return None
        self.call(exit_, (None, None, None))
        return st

    def s_FunctionDef(self, s, frame):
        if s.decorator_list:
            raise Unsupported("decorated nested function")
        fn = InterpFunction(self, s, frame, s.name)
        fn.defaults = tuple(self.geval(d, frame) for d in s.args.defaults)
        fn.kw_defaults = {a.arg: self.geval(d, frame) for a, d in zip(s.args.kwonlyargs, s.args.kw_defaults) if d is not None}
        frame.store(s.name, fn)
        return None
        yield

    def s_Import(self, s, frame):
        for a in s.names:
            mod = importlib.import_module(a.name)
            if a.asname:
                frame.store(a.asname, mod)
            else:
                frame.store(a.name.split(".")[0], importlib.import_module(a.name.split(".")[0]))
        return None
        yield

    def s_ImportFrom(self, s, frame):
        pkg = frame.globals.get("__package__")
        name = ("." * s.level) + (s.module or "")
        mod = importlib.import_module(name, pkg) if s.level else importlib.import_module(s.module)
        for a in s.names:
            try:
                v = getattr(mod, a.name)
            except AttributeError:
                v = importlib.import_module(f"{mod.__name__}.{a.name}")
            frame.store(a.asname or a.name, v)
        return None
        yield

    def s_Match(self, s, frame):
        subj = self.geval(s.subject, frame)
        for case in s.cases:
            binds: dict[str, Any] = {}
            if self.match_pattern(case.pattern, subj, binds, frame):
                for k, v in binds.items():
                    frame.store(k, v)
                if case.guard is not None and not self.truth(self.geval(case.guard, frame)):
                    continue
                return (yield from self.exec_block(case.body, frame))
        return None

    # ------------------------------------------------------------------
    # patterns
    # ------------------------------------------------------------------
    def match_pattern(self, p, subj, binds, frame) -> bool:
        if isinstance(p, ast.MatchValue):
            return self.truth(operator.eq(subj, self.eval(p.value, frame)))
        if isinstance(p, ast.MatchSingleton):
            return self.truth(self.is_(subj, p.value))
        if isinstance(p, ast.MatchAs):
            if p.pattern is not None and not self.match_pattern(p.pattern, subj, binds, frame):
                return False
            if p.name is not None:
                binds[p.name] = subj
            return True
        if isinstance(p, ast.MatchOr):
            for alt in p.patterns:
                b2: dict[str, Any] = {}
                if self.match_pattern(alt, subj, b2, frame):
                    binds.update(b2)
                    return True
            return False
        if isinstance(p, ast.MatchClass):
            cls = self.eval(p.cls, frame)
            if not self.isinstance_(subj, cls):
                return False
            if p.patterns:
                if cls in _SINGLE_POS_MATCH:
                    if len(p.patterns) != 1:
                        raise TypeError("too many positional sub-patterns")
                    if not self.match_pattern(p.patterns[0], subj, binds, frame):
                        return False
                else:
                    ma = getattr(cls, "__match_args__", ())
                    if len(p.patterns) > len(ma):
                        raise TypeError(f"{cls.__name__}() accepts {len(ma)} positional sub-patterns ({len(p.patterns)} given)")
                    for sp, attr in zip(p.patterns, ma):
                        try:
                            av = self.getattr_(subj, attr)
                        except AttributeError:
                            return False
                        if not self.match_pattern(sp, av, binds, frame):
                            return False
            for attr, sp in zip(p.kwd_attrs, p.kwd_patterns):
                try:
                    av = self.getattr_(subj, attr)
                except AttributeError:
                    return False
                if not self.match_pattern(sp, av, binds, frame):
                    return False
            return True
        if isinstance(p, ast.MatchSequence):
            if isinstance(subj, str | bytes | bytearray) or is_sym(subj):
                return False
            import collections.abc as cabc
            if not isinstance(subj, cabc.Sequence):
                return False
            pats = p.patterns
            star = [i for i, q in enumerate(pats) if isinstance(q, ast.MatchStar)]
            n = len(subj)
            if not star:
                if n != len(pats):
                    return False
                return all(self.match_pattern(q, subj[i], binds, frame) for i, q in enumerate(pats))
            si = star[0]
            if n < len(pats) - 1:
                return False
            for i in range(si):
                if not self.match_pattern(pats[i], subj[i], binds, frame):
                    return False
            after = len(pats) - si - 1
            for j in range(after):
                if not self.match_pattern(pats[si + 1 + j], subj[n - after + j], binds, frame):
                    return False
            if pats[si].name:
                binds[pats[si].name] = list(subj[si: n - after])
            return True
        if isinstance(p, ast.MatchMapping):
            import collections.abc as cabc
            if not isinstance(subj, cabc.Mapping):
                return False
            for k, sp in zip(p.keys, p.patterns):
                kv = self.eval(k, frame)
                if kv not in subj:
                    return False
                if not self.match_pattern(sp, subj[kv], binds, frame):
                    return False
            if p.rest:
                ks = [self.eval(k, frame) for k in p.keys]
                binds[p.rest] = {k: v for k, v in subj.items() if k not in ks}
            return True
        raise Unsupported(f"pattern {type(p).__name__}")

    # ------------------------------------------------------------------
    # assignment targets
    # ------------------------------------------------------------------
    def assign(self, t, v, frame):
        if isinstance(t, ast.Name):
            frame.store(t.id, v)
        elif isinstance(t, ast.Attribute):
            setattr(self.eval(t.value, frame), t.attr, v)
        elif isinstance(t, ast.Subscript):
            self.setitem(self.eval(t.value, frame), self.eval(t.slice, frame), v)
        elif isinstance(t, ast.Tuple | ast.List):
            vals = list(self._iter(v))
            star = [i for i, e in enumerate(t.elts) if isinstance(e, ast.Starred)]
            if not star:
                if len(vals) != len(t.elts):
                    raise ValueError(f"not enough/too many values to unpack (expected {len(t.elts)}, got {len(vals)})")
                for e, x in zip(t.elts, vals):
                    self.assign(e, x, frame)
            else:
                si = star[0]
                after = len(t.elts) - si - 1
                if len(vals) < len(t.elts) - 1:
                    raise ValueError("not enough values to unpack")
                for i in range(si):
                    self.assign(t.elts[i], vals[i], frame)
                self.assign(t.elts[si].value, vals[si: len(vals) - after], frame)
                for j in range(after):
                    self.assign(t.elts[si + 1 + j], vals[len(vals) - after + j], frame)
        elif isinstance(t, ast.Starred):
            self.assign(t.value, v, frame)
        else:
            raise Unsupported(f"assign target {type(t).__name__}")

    def _iter(self, v):
        if isinstance(v, SymChars):
            return iter(v)
        if is_sym(v):
            raise TypeError(f"'{self.type_(v).__name__}' object is not iterable")
        t = type(v)
        im = _mro_lookup(t, "__iter__")
        if isinstance(im, types.FunctionType) and self.interpretable(im):
            return iter(self.call(im, (v,)))
        return iter(v)

    # ------------------------------------------------------------------
    # subscripts
    # ------------------------------------------------------------------
    def _sym_index(self, obj, idx):
        """list/tuple index by a symbolic int: fork in-range / out-of-range first, so that an
        unbounded index does not have to be enumerated."""
        n = len(obj)
        c = _ctx.cur()
        if c.decide(z3.Or(idx.z >= n, idx.z < -n)):
            raise IndexError(f"{type(obj).__name__} index out of range")
        return idx.__index__()

    def subscript(self, obj, idx):
        t = type(obj)
        if isinstance(idx, SymInt) and t in (list, tuple):
            return obj[self._sym_index(obj, idx)]
        gm = _mro_lookup(t, "__getitem__")
        if isinstance(gm, types.FunctionType) and self.interpretable(gm):
            return self.call(gm, (obj, idx))
        return obj[idx]

    def setitem(self, obj, idx, v):
        t = type(obj)
        if isinstance(idx, SymInt) and t is list:
            obj[self._sym_index(obj, idx)] = v
            return
        sm = _mro_lookup(t, "__setitem__")
        if isinstance(sm, types.FunctionType) and self.interpretable(sm):
            self.call(sm, (obj, idx, v))
            return
        obj[idx] = v

    def delitem(self, obj, idx):
        t = type(obj)
        dm = _mro_lookup(t, "__delitem__")
        if isinstance(dm, types.FunctionType) and self.interpretable(dm):
            self.call(dm, (obj, idx))
            return
        del obj[idx]

    # ------------------------------------------------------------------
    # expressions
    # ------------------------------------------------------------------
    def geval(self, e, frame):
        """eval() for use inside generator-based statement executors (PEP 479 guard)."""
        try:
            return self.eval(e, frame)
        except StopIteration as ex:
            raise StopIterProxy(ex) from None

    def eval(self, e, frame):
        m = getattr(self, "e_" + type(e).__name__, None)
        if m is None:
            raise Unsupported(f"expression {type(e).__name__} at line {getattr(e, 'lineno', '?')}")
        return m(e, frame)

    def e_Constant(self, e, frame):
        return e.value

    def e_Name(self, e, frame):
        return frame.lookup(e.id)

    def e_Attribute(self, e, frame):
        return self.getattr_(self.eval(e.value, frame), e.attr)

    def e_Tuple(self, e, frame):
        return tuple(self._elts(e.elts, frame))

    def e_List(self, e, frame):
        # `[x, *row]` where `row` is a symbolic row of unbounded length stays a symbolic row
        if any(isinstance(x, ast.Starred) for x in e.elts):
            from .symseq import SymSeq
            parts = []
            symbolic = False
            for x in e.elts:
                if isinstance(x, ast.Starred):
                    v = self.eval(x.value, frame)
                    if isinstance(v, SymSeq):
                        symbolic = True
                        parts.append(("seq", v))
                    else:
                        parts.append(("list", list(self._iter(v))))
                else:
                    parts.append(("list", [self.eval(x, frame)]))
            if symbolic:
                acc = None
                for kind, v in parts:
                    piece = v if kind == "seq" else v
                    acc = piece if acc is None else (acc + piece)
                if not isinstance(acc, SymSeq):
                    raise Unsupported("symbolic row display")
                return acc
            out = []
            for _kind, v in parts:
                out.extend(v)
            return out
        return self._elts(e.elts, frame)

    def e_Set(self, e, frame):
        return set(self._elts(e.elts, frame))

    def _elts(self, elts, frame):
        out = []
        for x in elts:
            if isinstance(x, ast.Starred):
                out.extend(self._iter(self.eval(x.value, frame)))
            else:
                out.append(self.eval(x, frame))
        return out

    def e_Dict(self, e, frame):
        d = {}
        for k, v in zip(e.keys, e.values):
            if k is None:
                d.update(self.eval(v, frame))
            else:
                d[self.eval(k, frame)] = self.eval(v, frame)
        return d

    def e_Slice(self, e, frame):
        return slice(self.eval(e.lower, frame) if e.lower else None,
                     self.eval(e.upper, frame) if e.upper else None,
                     self.eval(e.step, frame) if e.step else None)

    def e_Subscript(self, e, frame):
        return self.subscript(self.eval(e.value, frame), self.eval(e.slice, frame))

    def e_Starred(self, e, frame):
        raise Unsupported("starred expression outside call/display")

    def e_BinOp(self, e, frame):
        a = self.eval(e.left, frame)
        b = self.eval(e.right, frame)
        if isinstance(e.op, ast.Mod) and isinstance(a, str) and not isinstance(a, SymStr):
            return a % b
        return _BINOPS[type(e.op)](a, b)

    def e_UnaryOp(self, e, frame):
        v = self.eval(e.operand, frame)
        if isinstance(e.op, ast.Not):
            return self.not_(v)
        if isinstance(e.op, ast.USub):
            return -v
        if isinstance(e.op, ast.UAdd):
            return +v
        if isinstance(e.op, ast.Invert):
            if isinstance(v, SymBool):
                return -1 - v._asint()
            return ~v
        raise Unsupported("unary op")

    def e_BoolOp(self, e, frame):
        is_and = isinstance(e.op, ast.And)
        v = None
        for i, x in enumerate(e.values):
            v = self.eval(x, frame)
            if i == len(e.values) - 1:
                return v
            t = self.truth(v)
            if is_and and not t:
                return v
            if not is_and and t:
                return v
        return v

    def e_Compare(self, e, frame):
        left = self.eval(e.left, frame)
        result: Any = True
        for op, rhs in zip(e.ops, e.comparators):
            right = self.eval(rhs, frame)
            r = self.compare(op, left, right)
            if len(e.ops) == 1:
                return r
            if not self.truth(r):
                return r
            result = r
            left = right
        return result

    def compare(self, op, a, b):
        t = type(op)
        if t in _CMPOPS:
            return _CMPOPS[t](a, b)
        if t is ast.Is:
            return self.is_(a, b)
        if t is ast.IsNot:
            return self.not_(self.is_(a, b))
        if t is ast.In:
            return self.contains(b, a)
        if t is ast.NotIn:
            return self.not_(self.contains(b, a))
        raise Unsupported("compare op")

    def contains(self, container, item):
        t = type(container)
        cm = _mro_lookup(t, "__contains__")
        if isinstance(cm, types.FunctionType) and self.interpretable(cm):
            return self.call(cm, (container, item))
        if isinstance(container, SymStr):
            from .values import to_z3_str
            return wrap_bool(z3.Contains(container.z, to_z3_str(item)))
        if isinstance(item, SymStr) and isinstance(container, str):
            from .values import to_z3_str
            return wrap_bool(z3.Contains(z3.StringVal(container), item.z))
        if is_sym(item) and isinstance(container, set | frozenset) and all(isinstance(x, int | str | bool) for x in container):
            zs = []
            for x in container:
                r = operator.eq(item, x)
                zb = to_z3_bool(r)
                if zb is None:
                    zs = None
                    break
                zs.append(zb)
            if zs is not None:
                return wrap_bool(z3.Or(*zs)) if zs else False
        if is_sym(item) and isinstance(container, list | tuple) :
            # disjunction instead of forking per element (when all comparisons are scalar)
            zs = []
            ok = True
            for x in container:
                r = operator.eq(item, x)
                zb = to_z3_bool(r)
                if zb is None:
                    ok = False
                    break
                zs.append(zb)
            if ok:
                return wrap_bool(z3.Or(*zs)) if zs else False
        if cm is None and not hasattr(container, "__contains__"):
            # iteration protocol
            for x in self._iter(container):
                if x is item or self.truth(operator.eq(x, item)):
                    return True
            return False
        return operator.contains(container, item)

    def e_IfExp(self, e, frame):
        if self.truth(self.eval(e.test, frame)):
            return self.eval(e.body, frame)
        return self.eval(e.orelse, frame)

    def e_NamedExpr(self, e, frame):
        v = self.eval(e.value, frame)
        frame.func_frame().store(e.target.id, v)
        return v

    def e_Lambda(self, e, frame):
        fn = InterpFunction(self, e, frame, "<lambda>")
        fn.defaults = tuple(self.eval(d, frame) for d in e.args.defaults)
        fn.kw_defaults = {a.arg: self.eval(d, frame) for a, d in zip(e.args.kwonlyargs, e.args.kw_defaults) if d is not None}
        return fn

    def e_JoinedStr(self, e, frame):
        out: Any = ""
        for part in e.values:
            if isinstance(part, ast.Constant):
                out = out + part.value
            else:
                out = out + self.e_FormattedValue(part, frame)
        return out

    def e_FormattedValue(self, e, frame):
        v = self.eval(e.value, frame)
        spec = self.eval(e.format_spec, frame) if e.format_spec is not None else ""
        if e.conversion == ord("r"):
            v = self.repr_(v)
        elif e.conversion == ord("s"):
            v = self.str_(v)
        elif e.conversion == ord("a"):
            v = ascii(v)
        if spec == "":
            if isinstance(v, str | SymStr | SymChars):
                return v
            fm = _mro_lookup(type(v), "__format__")
            if fm is object.__format__ or is_sym(v):
                return self.str_(v)
            return format(v, "")
        if is_sym(v):
            raise Unsupported("format spec on symbolic value")
        return format(v, spec)

    def e_Call(self, e, frame):
        # zero-argument super()
        if isinstance(e.func, ast.Name) and e.func.id == "super" and not e.args and not e.keywords:
            ff = frame.func_frame()
            if ff.defcls is None or ff.args0 is _UNSET:
                raise Unsupported("super() outside method")
            return super(ff.defcls, ff.args0)
        f = self.eval(e.func, frame)
        args = []
        for a in e.args:
            if isinstance(a, ast.Starred):
                args.extend(self._iter(self.eval(a.value, frame)))
            else:
                args.append(self.eval(a, frame))
        kwargs = {}
        for k in e.keywords:
            if k.arg is None:
                kwargs.update(self.eval(k.value, frame))
            else:
                kwargs[k.arg] = self.eval(k.value, frame)
        return self.call(f, tuple(args), kwargs)

    # comprehensions -----------------------------------------------------
    def _comp_iter(self, gens, frame, idx, leaf):
        if idx == len(gens):
            yield leaf(frame)
            return
        g = gens[idx]
        if g.is_async:
            raise Unsupported("async comprehension")
        it = self._iter(self.eval(g.iter, frame))
        for v in it:
            self.assign(g.target, v, frame)
            if all(self.truth(self.eval(c, frame)) for c in g.ifs):
                yield from self._comp_iter(gens, frame, idx + 1, leaf)

    def _comp_frame(self, frame):
        return Frame(frame.globals, frame, frame.func, frame.defcls, None, is_comp=True)

    def e_ListComp(self, e, frame):
        f = self._comp_frame(frame)
        return list(self._comp_iter(e.generators, f, 0, lambda fr: self.eval(e.elt, fr)))

    def e_SetComp(self, e, frame):
        f = self._comp_frame(frame)
        return set(self._comp_iter(e.generators, f, 0, lambda fr: self.eval(e.elt, fr)))

    def e_DictComp(self, e, frame):
        f = self._comp_frame(frame)
        return dict(self._comp_iter(e.generators, f, 0, lambda fr: (self.eval(e.key, fr), self.eval(e.value, fr))))

    def e_GeneratorExp(self, e, frame):
        f = self._comp_frame(frame)
        # the outermost iterable is evaluated eagerly, as in CPython
        g0 = e.generators[0]
        first_iter = self._iter(self.eval(g0.iter, frame))
        interp = self

        def gen():
            for v in first_iter:
                interp.assign(g0.target, v, f)
                if all(interp.truth(interp.eval(c, f)) for c in g0.ifs):
                    yield from interp._comp_iter(e.generators, f, 1, lambda fr: interp.eval(e.elt, fr))

        return gen()

    def e_Yield(self, e, frame):
        raise Unsupported("yield in expression position")

    e_YieldFrom = e_Yield

    def e_Await(self, e, frame):
        raise Unsupported("await")

    # ------------------------------------------------------------------
    # intercepts for builtins
    # ------------------------------------------------------------------
    def intercept(self, obj, fn):
        self.intercepts[id(obj)] = fn
        self.intercept_objs.append(obj)

    def _install_builtin_intercepts(self):
        I = self.intercept

        I(isinstance, lambda s, a, k: s.isinstance_(*a))
        I(type, lambda s, a, k: s.type_(a[0]) if len(a) == 1 else NotImplemented)
        I(str, lambda s, a, k: (s.str_(a[0]) if len(a) == 1 and not k else ("" if not a and not k else NotImplemented)))
        I(repr, lambda s, a, k: s.repr_(a[0]))

        def _bool(s, a, k):
            if not a:
                return False
            v = a[0]
            if isinstance(v, SymBool):
                return v
            if isinstance(v, SymInt):
                return wrap_bool(v.z != 0)
            return s.truth(v)

        I(bool, _bool)

        def _int(s, a, k):
            if len(a) == 1 and not k:
                v = a[0]
                if isinstance(v, SymInt):
                    return v
                if isinstance(v, SymBool):
                    return v._asint()
                if isinstance(v, SymStr):
                    raise Unsupported("int(<symbolic str>)")
            return NotImplemented

        I(int, _int)

        def _len(s, a, k):
            v = a[0]
            if isinstance(v, SymStr):
                return v.sym_len()
            sl = getattr(v, "sym_len", None)
            if sl is not None and not isinstance(v, type):
                return sl()
            lm = _mro_lookup(type(v), "__len__")
            if isinstance(lm, types.FunctionType) and s.interpretable(lm):
                return s.call(lm, (v,))
            return NotImplemented

        I(len, _len)

        def _minmax(is_min):
            def f(s, a, k):
                if k or len(a) < 2:
                    if len(a) == 1 and not k:
                        a = tuple(s._iter(a[0]))
                        if len(a) < 1:
                            return NotImplemented
                    else:
                        return NotImplemented
                if not any(is_sym(x) for x in a):
                    return NotImplemented
                zs = [to_z3_int(x) for x in a]
                if any(z is None for z in zs):
                    return NotImplemented
                acc = zs[0]
                for z in zs[1:]:
                    acc = z3.If(z < acc, z, acc) if is_min else z3.If(z > acc, z, acc)
                return wrap_int(acc)
            return f

        I(min, _minmax(True))
        I(max, _minmax(False))

        def _abs(s, a, k):
            return abs(a[0])

        I(abs, _abs)

        def _next(s, a, k):
            return NotImplemented

        def _hash(s, a, k):
            v = a[0]
            hm = _mro_lookup(type(v), "__hash__")
            if isinstance(hm, types.FunctionType) and s.interpretable(hm):
                return s.call(hm, (v,))
            return NotImplemented

        I(hash, _hash)

        def _iter_(s, a, k):
            if len(a) == 1:
                return s._iter(a[0])
            return NotImplemented

        I(iter, _iter_)

        def _list(s, a, k):
            if len(a) == 1:
                from .symseq import SymSeq
                if isinstance(a[0], SymSeq):
                    return a[0]  # rows are immutable values here: a copy is the row itself
                return list(s._iter(a[0]))
            return NotImplemented

        I(list, _list)

        def _tuple(s, a, k):
            if len(a) == 1:
                return tuple(s._iter(a[0]))
            return NotImplemented

        I(tuple, _tuple)

        def _getattr(s, a, k):
            if len(a) == 2:
                return s.getattr_(a[0], a[1])
            try:
                return s.getattr_(a[0], a[1])
            except AttributeError:
                return a[2]

        I(getattr, _getattr)

        def _sum(s, a, k):
            it = s._iter(a[0])
            acc = a[1] if len(a) > 1 else k.get("start", 0)
            for x in it:
                acc = acc + x
            return acc

        I(sum, _sum)

        def _any(s, a, k):
            for x in s._iter(a[0]):
                if s.truth(x):
                    return True
            return False

        def _all(s, a, k):
            for x in s._iter(a[0]):
                if not s.truth(x):
                    return False
            return True

        I(any, _any)
        I(all, _all)

        def _enumerate(s, a, k):
            start = a[1] if len(a) > 1 else k.get("start", 0)
            return _sym_enumerate(s._iter(a[0]), start)

        I(enumerate, _enumerate)

        def _zip(s, a, k):
            return zip(*[s._iter(x) for x in a], **k)

        I(zip, _zip)

        def _sorted(s, a, k):
            return sorted(list(s._iter(a[0])), **k)

        I(sorted, _sorted)

        def _dict(s, a, k):
            if len(a) == 1 and not isinstance(a[0], dict):
                im = _mro_lookup(type(a[0]), "__iter__")
                if isinstance(im, types.FunctionType) and s.interpretable(im) and hasattr(a[0], "keys"):
                    return NotImplemented
                if not hasattr(a[0], "keys"):
                    return dict(list(s._iter(a[0])), **k)
            return NotImplemented

        I(dict, _dict)

        def _set(s, a, k):
            if len(a) == 1:
                return set(s._iter(a[0]))
            return NotImplemented

        I(set, _set)

        def _join(s, a, k):
            return NotImplemented

        def _map(s, a, k):
            f = a[0]
            its = [s._iter(x) for x in a[1:]]
            return (s.call(f, xs) for xs in zip(*its))

        I(map, _map)

        def _filter(s, a, k):
            f = a[0]
            return (x for x in s._iter(a[1]) if s.truth(s.call(f, (x,)) if f is not None else x))

        I(filter, _filter)

        def _range(s, a, k):
            if k or not any(is_sym(x) for x in a):
                return NotImplemented
            if len(a) == 1:
                return SymRange(0, a[0], 1)
            if len(a) == 2:
                return SymRange(a[0], a[1], 1)
            return SymRange(a[0], a[1], a[2])

        I(range, _range)

        def _replace(s, a, k):
            # dataclasses.replace: native is fine (it only re-invokes the generated __init__),
            # unless the class has an interpretable __init__
            return NotImplemented

        I(dataclasses.replace, _replace)


class SymRange:
    """range() with symbolic bounds: iteration unrolls under the loop bound, forking on the exit test."""

    def __init__(self, start, stop, step):
        self.start, self.stop, self.step = start, stop, step

    def __iter__(self):
        step = self.step
        if is_sym(step):
            if _ctx.cur().decide(to_z3_int(step) == 0):
                raise ValueError("range() arg 3 must not be zero")
            pos = _ctx.cur().decide(to_z3_int(step) > 0)
        else:
            if step == 0:
                raise ValueError("range() arg 3 must not be zero")
            pos = step > 0
        k = 0
        bound = _ctx.cur().loop_bound
        while True:
            cur = self.start + k * step
            cond = (cur < self.stop) if pos else (cur > self.stop)
            if not (bool(cond)):
                return
            yield cur
            k += 1
            if k > bound:
                raise BoundExceeded(f"symbolic range exceeded {bound} iterations")


def _sym_enumerate(it, start):
    i = start
    for x in it:
        yield i, x
        i = i + 1


def _has_yield_shallow(fnode) -> bool:
    """Does this def contain yield (not counting nested defs/lambdas)?"""
    stack = list(fnode.body) if not isinstance(fnode, ast.Lambda) else []
    while stack:
        n = stack.pop()
        if isinstance(n, ast.Yield | ast.YieldFrom):
            return True
        if isinstance(n, ast.FunctionDef | ast.AsyncFunctionDef | ast.Lambda | ast.ClassDef):
            continue
        stack.extend(ast.iter_child_nodes(n))
    return False


def _mro_lookup(t, name):
    for c in t.__mro__:
        d = c.__dict__
        if name in d:
            return d[name]
    return None


def _plain_metaclass(cls) -> bool:
    import abc
    import typing
    mc = type(cls)
    return mc in (type, abc.ABCMeta, getattr(typing, "_ProtocolMeta", type))


INTERP = Interp()
try:
    import pyzstd as _pyzstd
    INTERP.concretize_boundary(_pyzstd.compress)
    INTERP.concretize_boundary(_pyzstd.decompress)
except ImportError:  # pragma: no cover
    pass


# ---------------------------------------------------------------------------
# pydantic boundary: models are built with model_construct (pydantic's own pure-Python
# constructor: assigns declared fields, applies defaults, no validation/coercion) whenever a
# symbolic value is reachable from the arguments; otherwise the real validating constructor runs.
# ---------------------------------------------------------------------------
def contains_sym(x, depth=8) -> bool:
    if is_sym(x) or isinstance(x, SymEnum):
        return True
    if depth <= 0:
        return False
    if isinstance(x, list | tuple | set | frozenset):
        return any(contains_sym(e, depth - 1) for e in x)
    if isinstance(x, dict):
        return any(contains_sym(k, depth - 1) or contains_sym(v, depth - 1) for k, v in x.items())
    d = getattr(x, "__dict__", None)
    if d is not None and not isinstance(x, type) and not isinstance(x, types.ModuleType | types.FunctionType):
        if type(x).__module__.startswith(("hugr.", "pydantic")) or hasattr(type(x), "model_fields"):
            return any(contains_sym(v, depth - 1) for v in d.values())
    return False


def _pydantic_stub(interp, cls, args, kwargs):
    try:
        import pydantic
    except ImportError:  # pragma: no cover
        return NotImplemented
    if not (isinstance(cls, type) and issubclass(cls, pydantic.BaseModel)):
        return NotImplemented
    if args or not contains_sym(kwargs):
        return NotImplemented
    _ctx.cur().stats.stubs.add("pydantic:model_construct-when-symbolic")
    return cls.model_construct(**kwargs)


INTERP.class_stubs.append(_pydantic_stub)
