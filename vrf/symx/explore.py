"""Path exploration of one lemma (harness function) + per-path native differential replay."""
from __future__ import annotations

import os
import collections
import time
import traceback
from dataclasses import dataclass, field
from typing import Any

import z3

from . import ctx as _ctx
from . import sym as _sym
from .ctx import BoundExceeded, Ctx, PathInfeasible, SolverUnknown, Stats, Unsupported
from .interp import INTERP
from .values import SymBool, SymInt, SymStr, is_sym


@dataclass
class Cex:
    clause: str
    inputs: dict
    preds: dict
    info: Any = None
    reproduced: bool | None = None
    detail: str = ""
    known: str | None = None


@dataclass
class LemmaResult:
    name: str
    paths: int = 0
    ok_paths: int = 0
    exc_paths: dict = field(default_factory=dict)
    checks_ok: int = 0
    checks_nontrivial: int = 0
    cex: list[Cex] = field(default_factory=list)
    inconclusive: list[str] = field(default_factory=list)
    replayed: int = 0
    divergences: list[str] = field(default_factory=list)
    stats: Stats = field(default_factory=Stats)
    samples: list = field(default_factory=list)
    wall_s: float = 0.0
    clause_counts: dict = field(default_factory=dict)
    reach: dict = field(default_factory=dict)
    truncated: bool = False

    @property
    def verdict(self) -> str:
        if self.divergences or self.inconclusive or self.truncated:
            return "inconclusive"
        if any(c.reproduced and c.known is None for c in self.cex):
            return "violated"
        if any(not c.reproduced for c in self.cex):
            return "inconclusive"  # non-reproducing counterexample = harness/engine problem
        if self.paths == 0:
            return "inconclusive"
        return "holds"


def _eval_under(model, v):
    """Evaluate a (possibly symbolic / structured) observation under a model."""
    if isinstance(v, SymInt | SymBool | SymStr):
        return _ctx.z3_to_py(model.eval(v.z, model_completion=True))
    if hasattr(v, "eval_under"):
        return v.eval_under(model)
    if isinstance(v, list):
        return [_eval_under(model, x) for x in v]
    if isinstance(v, tuple):
        return tuple(_eval_under(model, x) for x in v)
    if isinstance(v, dict):
        return {_eval_under(model, k): _eval_under(model, x) for k, x in v.items()}
    return v


def run_concrete(fn, valuation: dict, allowed_exc=()):
    """Plain CPython run of the harness with concrete inputs. Returns (outcome, Concrete)."""
    conc = _sym.Concrete(valuation)
    _sym.set_concrete(conc)
    saved = _ctx.CTX
    _ctx.set_ctx(None)
    try:
        try:
            fn()
            outcome = "return"
        except _sym.AssumeFailed:
            outcome = "assume-failed"
        except allowed_exc as e:
            outcome = "raises:" + type(e).__name__
        except Exception as e:  # noqa: BLE001
            outcome = "exception:" + type(e).__name__
            conc.notes.append("".join(traceback.format_exception_only(type(e), e)).strip()[:300])
    finally:
        _sym.set_concrete(None)
        _ctx.set_ctx(saved)
    return outcome, conc


def explore(name: str, fn, *, allowed_exc: tuple = (), max_paths: int = 20000, timeout_s: float = 600.0,
            query_timeout_ms: int = 60000, seed: int = 0, known=None, max_enum: int = 64,
            loop_bound: int = 10000, max_samples: int = 3, replay: bool = True, stop_after_violations: int = 5) -> LemmaResult:
    """Explore all paths of harness `fn` symbolically.

    known: list of (clause, predicate_name|None) that are listed known findings for this lemma.
    """
    res = LemmaResult(name)
    t0 = time.time()
    # pending decision prefixes. Mostly depth-first (newest first), but every 4th path is taken from the OLDEST pending
    # prefix (usually the shallowest alternative): same set of paths on completion, and a violation that sits behind an
    # early, rarely-taken choice is reached long before the exploration completes.
    work: collections.deque = collections.deque([[]])
    known = known or []
    it = 0
    while work:
        if res.paths >= max_paths or time.time() - t0 > timeout_s:
            res.truncated = True
            res.inconclusive.append(f"exploration budget exhausted ({res.paths} paths, {len(work)} pending)")
            break
        if sum(1 for x in res.cex if x.reproduced and x.known is None) >= stop_after_violations:
            # enough reproduced violations to report: the verdict cannot improve (exit 1 in any case)
            res.truncated = True
            res.inconclusive.append(f"exploration stopped after {stop_after_violations} reproduced violations ({res.paths} paths, {len(work)} pending)")
            break
        if len(res.inconclusive) >= 25:
            # the lemma is inconclusive already; more of the same cannot change that
            res.truncated = True
            res.inconclusive.append(f"exploration stopped after 25 inconclusive paths ({res.paths} paths, {len(work)} pending)")
            break
        it += 1
        prefix = work.popleft() if it % 4 == 0 else work.pop()
        c = Ctx(prefix, res.stats, timeout_ms=query_timeout_ms, seed=seed, max_enum=max_enum, loop_bound=loop_bound)
        c.known = known
        _ctx.set_ctx(c)
        outcome = None
        exc_obj = None
        try:
            try:
                INTERP.depth = 0
                INTERP.call(fn)
                outcome = "return"
            except PathInfeasible:
                outcome = "infeasible"
            except Unsupported as e:
                outcome = "unsupported"
                res.inconclusive.append(f"UNSUPPORTED: {e.what}")
            except BoundExceeded as e:
                outcome = "bound"
                res.inconclusive.append(f"BOUND-EXCEEDED: {e.what}")
            except SolverUnknown as e:
                outcome = "unknown"
                res.inconclusive.append(f"SOLVER-UNKNOWN: {e.what}")
            except allowed_exc as e:
                outcome = "raises:" + type(e).__name__
            except Exception as e:  # noqa: BLE001
                outcome = "exception:" + type(e).__name__
                exc_obj = e
            work.extend(c.alternatives)
            if outcome == "infeasible":
                # clauses refuted before the path died (a refuted clause is assumed afterwards,
                # which may make the rest of the path infeasible) still count
                had = False
                for ch in c.checks:
                    if ch["verdict"] == "ok":
                        res.clause_counts.setdefault(ch["name"], {"ok": 0, "cex": 0})["ok"] += 1
                    if ch["verdict"] == "cex":
                        had = True
                        cc = res.clause_counts.setdefault(ch["name"], {"ok": 0, "cex": 0})
                        cc["cex"] += 1
                        cex = Cex(ch["name"], ch["model"], ch["preds"], info=ch.get("info"), known=ch.get("known"))
                        _triage(res, fn, cex, allowed_exc, replay, expect_false=ch["name"])
                if had:
                    res.paths += 1
                    res.reach["refuted"] = res.reach.get("refuted", 0) + 1
                continue
            # final feasibility + model
            model = None
            if outcome in ("return",) or outcome.startswith(("raises:", "exception:")):
                r = c._check()
                if r == "unsat":
                    continue  # path died on a late assume
                if r == "unknown":
                    res.inconclusive.append("SOLVER-UNKNOWN: final path feasibility")
                    res.paths += 1
                    continue
                model = c.solver.model()
            res.paths += 1
            if outcome.startswith("exception:"):
                # unexpected exception = violation candidate of the implicit clause "no unexpected exception"
                clause = "no_unexpected_exception:" + outcome.split(":", 1)[1]
                tb = "".join(traceback.format_exception_only(type(exc_obj), exc_obj)).strip()[:300]
                if os.environ.get("VERIF_DEBUG"):
                    tb += " || " + "".join(traceback.format_tb(exc_obj.__traceback__)[-8:])
                kp = [p for (cl, p) in known if cl == clause]
                kn = None
                if kp:
                    preds = c.eval_predicates(model)
                    hit = [p for p in kp if p is None or preds.get(p)]
                    if hit:
                        kn = hit[0] or "*"
                        # is there also a model of this path outside every listed predicate?
                        if None not in kp:
                            excl = [z3.Not(c.predicates[p]) for p in kp if p in c.predicates]
                            if c._check(*excl) == "sat":
                                m2 = c.solver.model()
                                cex2 = Cex(clause, c.model_inputs(m2), c.eval_predicates(m2), info=tb)
                                _triage(res, fn, cex2, allowed_exc, replay, expect_exception=outcome)
                cex = Cex(clause, c.model_inputs(model), c.eval_predicates(model), info=tb, known=kn)
                _triage(res, fn, cex, allowed_exc, replay, expect_exception=outcome)
            else:
                if outcome == "return":
                    res.ok_paths += 1
                else:
                    res.exc_paths[outcome] = res.exc_paths.get(outcome, 0) + 1
            for ch in c.checks:
                cc = res.clause_counts.setdefault(ch["name"], {"ok": 0, "cex": 0})
                if ch["verdict"] == "ok":
                    res.checks_ok += 1
                    cc["ok"] += 1
                    if not ch.get("trivial"):
                        res.checks_nontrivial += 1
                elif ch["verdict"] == "cex":
                    cc["cex"] += 1
                    cex = Cex(ch["name"], ch["model"], ch["preds"], info=ch.get("info"), known=ch.get("known"))
                    _triage(res, fn, cex, allowed_exc, replay, expect_false=ch["name"])
            res.reach[outcome] = res.reach.get(outcome, 0) + 1
            # differential replay of the path under its final model
            if model is not None and replay and not outcome.startswith("exception:"):
                val = c.model_inputs(model)
                coutcome, conc = run_concrete(fn, val, allowed_exc)
                res.replayed += 1
                if coutcome != outcome:
                    res.divergences.append(f"outcome symbolic={outcome} concrete={coutcome} inputs={val} {conc.notes}")
                else:
                    sym_ok = []
                    seen_seq = set()
                    for ch in c.checks:
                        if ch["seq"] not in seen_seq:
                            seen_seq.add(ch["seq"])
                            sym_ok.append(ch["name"])
                    con = conc.checks
                    if [n for n, _ in con] != sym_ok:
                        res.divergences.append(f"check sequence differs sym={sym_ok} conc={[n for n, _ in con]} inputs={val}")
                    else:
                        # verdict of each symbolic check call (a call refuted on this path may stay false concretely)
                        verdict_by_seq = {}
                        for ch in c.checks:
                            verdict_by_seq.setdefault(ch["seq"], ch["verdict"])
                        verdicts = [verdict_by_seq[sq] for sq in sorted(verdict_by_seq)]
                        for (n, v), vd in zip(con, verdicts):
                            if not v and vd == "ok":
                                res.divergences.append(f"clause {n} valid symbolically but false concretely; inputs={val}")
                                break
                    so = [(n, _eval_under(model, v)) for n, v in c.observes]
                    if not _obs_equal(so, conc.observes):
                        res.divergences.append(f"observations differ sym={so!r:.300} conc={conc.observes!r:.300} inputs={val}")
                if len(res.samples) < max_samples:
                    res.samples.append({"inputs": val, "outcome": outcome,
                                        "checks": [ch["name"] + ":" + ch["verdict"] for ch in c.checks][:12]})
        finally:
            _ctx.set_ctx(None)
    res.wall_s = time.time() - t0
    return res


def _obs_equal(a, b) -> bool:
    if len(a) != len(b):
        return False
    for (n1, v1), (n2, v2) in zip(a, b):
        if n1 != n2:
            return False
        try:
            if not (v1 == v2):
                return False
        except Exception:  # noqa: BLE001
            return False
    return True


def _triage(res: LemmaResult, fn, cex: Cex, allowed_exc, replay: bool, expect_false=None, expect_exception=None):
    if replay:
        coutcome, conc = run_concrete(fn, cex.inputs, allowed_exc)
        if expect_exception is not None:
            cex.reproduced = coutcome == expect_exception
            cex.detail = f"concrete outcome {coutcome} {conc.notes}"
        else:
            vals = [v for n, v in conc.checks if n == expect_false]
            cex.reproduced = any(v is False for v in vals)
            cex.detail = f"concrete outcome {coutcome}; clause values {vals} {conc.notes}"
    res.cex.append(cex)
