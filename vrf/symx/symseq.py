"""SymSeq: a type row of *unbounded* symbolic length over an uninterpreted element sort `Ty`
(z3 sequences).  Real hugr type objects occurring next to symbolic rows are encoded as terms:
`Sum(rows)` -> mk_sum(Seq(Seq Ty)), `FunctionType(i, o)` -> mk_fn(Seq Ty, Seq Ty), every other
concrete type object -> a distinct constant.  Row algebra (`+`, `[x, *row]`, `row[i]`, slices,
`len`, `==`) stays symbolic; iteration over an unbounded row is unsupported (ends the path).

In concrete replay mode `make()` returns a plain list of pairwise distinct opaque atoms whose
length and element identities come from the solver's model.
"""
from __future__ import annotations

import z3

from . import ctx as _ctx
from . import sym as _sym
from .values import SymBool, SymInt, to_z3_int, wrap_bool, wrap_int

Ty = z3.DeclareSort("Ty")
SeqTy = z3.SeqSort(Ty)
SeqSeqTy = z3.SeqSort(SeqTy)
mk_sum = z3.Function("mk_sum", SeqSeqTy, Ty)
mk_fn = z3.Function("mk_fn", SeqTy, SeqTy, Ty)
_consts: dict[str, object] = {}


class SymTy:
    """A symbolic element of a row (stands for some hugr type)."""
    __slots__ = ("z",)

    def __init__(self, z):
        self.z = z

    def __eq__(self, o):
        z = enc_ty(o)
        return False if z is None else wrap_bool(self.z == z)

    def __ne__(self, o):
        z = enc_ty(o)
        return True if z is None else wrap_bool(self.z != z)

    def __hash__(self):
        raise _ctx.Unsupported("hash of a symbolic type")

    def __repr__(self):
        return f"<symty {self.z}>"


def enc_ty(t):
    """Python type object (or SymTy) -> z3 term of sort Ty; None if not a type."""
    from hugr import tys
    if isinstance(t, SymTy):
        return t.z
    if isinstance(t, tys.Sum):
        rows = [enc_row(r) for r in t.variant_rows]
        if any(r is None for r in rows):
            return None
        seq = z3.Empty(SeqSeqTy)
        for r in rows:
            seq = z3.Concat(seq, z3.Unit(r)) if not _is_empty(seq) else z3.Unit(r)
        return mk_sum(seq)
    if isinstance(t, tys.FunctionType):
        i, o = enc_row(t.input), enc_row(t.output)
        if i is None or o is None:
            return None
        return mk_fn(i, o)
    if isinstance(t, tys.Type):
        key = repr(t) + "#" + type(t).__name__
        if key not in _consts:
            _consts[key] = z3.Const("ty:" + key, Ty)
        return _consts[key]
    return None


def _is_empty(seq):
    return z3.is_app(seq) and seq.decl().kind() == z3.Z3_OP_SEQ_EMPTY


def enc_row(r):
    if isinstance(r, SymSeq):
        return r.z
    if isinstance(r, list | tuple):
        out = None
        for x in r:
            zx = enc_ty(x)
            if zx is None:
                return None
            out = z3.Unit(zx) if out is None else z3.Concat(out, z3.Unit(zx))
        return out if out is not None else z3.Empty(SeqTy)
    return None


class SymSeq:
    __slots__ = ("z",)

    def __init__(self, z):
        self.z = z

    # -- algebra ---------------------------------------------------------------
    def __add__(self, o):
        z = enc_row(o)
        if z is None:
            return NotImplemented
        return SymSeq(z3.Concat(self.z, z))

    def __radd__(self, o):
        z = enc_row(o)
        if z is None:
            return NotImplemented
        return SymSeq(z3.Concat(z, self.z))

    def __eq__(self, o):
        z = enc_row(o)
        return False if z is None else wrap_bool(self.z == z)

    def __ne__(self, o):
        z = enc_row(o)
        return True if z is None else wrap_bool(self.z != z)

    def sym_len(self):
        return wrap_int(z3.Length(self.z))

    def __len__(self):
        return _ctx.cur().concretize_int(z3.Length(self.z))

    def __getitem__(self, i):
        n = z3.Length(self.z)
        if isinstance(i, slice):
            if i.step not in (None, 1):
                raise _ctx.Unsupported("SymSeq: extended slice")
            lo = to_z3_int(0 if i.start is None else i.start)
            hi = n if i.stop is None else to_z3_int(i.stop)
            lo = z3.If(lo < 0, z3.If(lo + n < 0, 0, lo + n), z3.If(lo > n, n, lo))
            hi = z3.If(hi < 0, z3.If(hi + n < 0, 0, hi + n), z3.If(hi > n, n, hi))
            return SymSeq(z3.SubSeq(self.z, lo, z3.If(hi > lo, hi - lo, 0)))
        zi = to_z3_int(i)
        if zi is None:
            raise TypeError("row index must be an integer")
        if _ctx.cur().decide(z3.Or(zi >= n, zi < -n)):
            raise IndexError("list index out of range")
        zi = z3.If(zi < 0, zi + n, zi)
        return SymTy(z3.simplify(self.z[zi]))

    def __iter__(self):
        raise _ctx.Unsupported("iteration over a row of unbounded symbolic length")

    def __bool__(self):
        return _ctx.cur().decide(z3.Length(self.z) > 0)

    def __hash__(self):
        raise _ctx.Unsupported("hash of a symbolic row")

    def __repr__(self):
        return f"<symseq {self.z}>"

    # -- model extraction ----------------------------------------------------------
    @staticmethod
    def _elems(v):
        if z3.is_app(v):
            k = v.decl().kind()
            if k == z3.Z3_OP_SEQ_EMPTY:
                return []
            if k == z3.Z3_OP_SEQ_UNIT:
                return [str(v.arg(0))]
            if k == z3.Z3_OP_SEQ_CONCAT:
                out = []
                for c in v.children():
                    out += SymSeq._elems(c)
                return out
        raise _ctx.Unsupported(f"cannot read sequence value {v}")


def make(name: str):
    """A symbolic row (symbolic mode) / a list of distinct atoms per the model (replay mode)."""
    if _sym.CONC is not None:
        from hugr import tys
        ids = _sym.CONC.valuation[name]
        return [tys.Opaque("atom" + "".join(ch if ch.isalnum() else "_" for ch in e), tys.TypeBound.Any, [], "symseq") for e in ids]
    c = _ctx.cur()
    z = z3.Const(name, SeqTy)
    s = SymSeq(z)
    c.extractors[name] = lambda m: SymSeq._elems(m.eval(z, model_completion=True))
    return s
