"""SymDict: an insertion-ordered association list with symbolic keys/values and symbolic
per-entry presence.  Exact dict semantics (membership, get, setitem keeps position of an
existing key, delitem, iteration in insertion order, len) without hashing: membership tests
and iteration fork through the solver, updates are expressed with ite and do not fork.

Used for bounded symbolic pre-states (e.g. the link table of a Hugr seeded with E symbolic,
individually optional links).  In concrete replay mode the harness uses a real dict.
"""
from __future__ import annotations

import z3

from . import ctx as _ctx
from .values import wrap_bool, wrap_int


def _eq(a, b):
    return z3.And(*[x == y for x, y in zip(a, b)]) if len(a) > 1 else a[0] == b[0]


class SymDict:
    def __init__(self, name, kc, vc):
        self.name = name
        self.kc = kc
        self.vc = vc
        self.entries: list[list] = []  # [key terms, presence (z3 Bool), value terms]

    def seed(self, key, present, value):
        """Initial entry with symbolic presence. Caller guarantees present keys are pairwise distinct."""
        kt, vt = self.kc.enc(key), self.vc.enc(value)
        if kt is None or vt is None:
            raise _ctx.Unsupported(f"SymDict {self.name}: seed outside codec")
        from .values import to_z3_bool
        self.entries.append([kt, to_z3_bool(present), vt])

    def z_has(self, kt):
        return z3.simplify(z3.Or(*[z3.And(p, _eq(k, kt)) for k, p, _ in self.entries])) if self.entries else z3.BoolVal(False)

    def z_get(self, kt):
        if not self.entries:
            return None
        r = list(self.entries[0][2])
        for k, p, v in self.entries[1:]:
            c = z3.And(p, _eq(k, kt))
            r = [z3.If(c, a, b) for a, b in zip(v, r)]
        return tuple(z3.simplify(x) for x in r)

    def __contains__(self, key):
        kt = self.kc.enc(key)
        if kt is None:
            return False
        return _ctx.cur().decide(self.z_has(kt))

    def has(self, key):
        kt = self.kc.enc(key)
        if kt is None:
            return False
        return wrap_bool(self.z_has(kt))

    def get(self, key, default=None):
        kt = self.kc.enc(key)
        if kt is None or not _ctx.cur().decide(self.z_has(kt)):
            return default
        return self.vc.dec(self.z_get(kt))

    def __getitem__(self, key):
        kt = self.kc.enc(key)
        if kt is None or not _ctx.cur().decide(self.z_has(kt)):
            raise KeyError(key)
        return self.vc.dec(self.z_get(kt))

    def __setitem__(self, key, value):
        kt, vt = self.kc.enc(key), self.vc.enc(value)
        if kt is None or vt is None:
            raise _ctx.Unsupported(f"SymDict {self.name}: key/value outside codec: {key!r} -> {value!r}")
        if self.entries and _ctx.cur().decide(self.z_has(kt)):
            for e in self.entries:
                c = z3.And(e[1], _eq(e[0], kt))
                e[2] = tuple(z3.simplify(z3.If(c, n, o)) for n, o in zip(vt, e[2]))
        else:
            self.entries.append([kt, z3.BoolVal(True), vt])

    def __delitem__(self, key):
        kt = self.kc.enc(key)
        if kt is None or not self.entries or not _ctx.cur().decide(self.z_has(kt)):
            raise KeyError(key)
        for e in self.entries:
            e[1] = z3.simplify(z3.And(e[1], z3.Not(_eq(e[0], kt))))

    def pop(self, key, *default):
        try:
            v = self[key]
        except KeyError:
            if default:
                return default[0]
            raise
        del self[key]
        return v

    def items(self):
        out = []
        for k, p, v in list(self.entries):
            if _ctx.cur().decide(p):
                out.append((self.kc.dec(k), self.vc.dec(v)))
        return out

    def keys(self):
        return [k for k, _ in self.items()]

    def values(self):
        return [v for _, v in self.items()]

    def __iter__(self):
        return iter(self.keys())

    def sym_len(self):
        return wrap_int(z3.Sum(*[z3.If(p, 1, 0) for _, p, _ in self.entries])) if self.entries else 0

    def __len__(self):
        n = self.sym_len()
        return n if isinstance(n, int) else n.__index__()

    def __bool__(self):
        if not self.entries:
            return False
        return _ctx.cur().decide(z3.Or(*[p for _, p, _ in self.entries]))
