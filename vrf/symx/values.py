"""Symbolic scalar proxies: SymInt, SymBool, SymStr.

They are *not* subclasses of int/bool/str, so C code can never silently read a
dummy payload: every C-level demand for a concrete value goes through
`__bool__` (fork), `__index__` / `__hash__` (bounded enumeration fork).
`isinstance`/`match`/`is`/`str()` on them are handled by the interpreter.
"""
from __future__ import annotations

import z3

from . import ctx as _ctx


def _c():
    return _ctx.cur()


def is_sym(x) -> bool:
    return isinstance(x, SymInt | SymBool | SymStr | SymChars)


def to_z3_int(x):
    if isinstance(x, SymInt):
        return x.z
    if isinstance(x, SymBool):
        return z3.If(x.z, z3.IntVal(1), z3.IntVal(0))
    if isinstance(x, bool):
        return z3.IntVal(1 if x else 0)
    if isinstance(x, int):
        return z3.IntVal(x)
    return None


def to_z3_bool(x):
    if isinstance(x, SymBool):
        return x.z
    if isinstance(x, bool):
        return z3.BoolVal(x)
    return None


def wrap_int(z):
    z = z3.simplify(z)
    if z3.is_int_value(z):
        return z.as_long()
    return SymInt(z)


def wrap_bool(z):
    z = z3.simplify(z)
    if z3.is_true(z):
        return True
    if z3.is_false(z):
        return False
    return SymBool(z)


def wrap_str(z):
    z = z3.simplify(z)
    if z3.is_string_value(z):
        return z.as_string()
    return SymStr(z)


def floordiv(a, b):
    # Python floor division on mathematical integers; z3 `div` floors for positive divisors.
    return z3.If(b > 0, a / b, (-a) / (-b))


class SymInt:
    __slots__ = ("z",)

    def __init__(self, z):
        self.z = z

    # arithmetic
    def _bin(self, other, f, rev=False):
        o = to_z3_int(other)
        if o is None:
            return NotImplemented
        return wrap_int(f(o, self.z) if rev else f(self.z, o))

    def __add__(self, o):
        return self._bin(o, lambda a, b: a + b)

    def __radd__(self, o):
        return self._bin(o, lambda a, b: a + b, True)

    def __sub__(self, o):
        return self._bin(o, lambda a, b: a - b)

    def __rsub__(self, o):
        return self._bin(o, lambda a, b: a - b, True)

    def __mul__(self, o):
        if isinstance(o, str | list | tuple | bytes):
            return o * self.__index__()
        return self._bin(o, lambda a, b: a * b)

    def __rmul__(self, o):
        if isinstance(o, str | list | tuple | bytes):
            return o * self.__index__()
        return self._bin(o, lambda a, b: a * b, True)

    def _nz(self, zb):
        if _c().decide(zb == 0):
            raise ZeroDivisionError("integer division or modulo by zero")

    def __floordiv__(self, o):
        z = to_z3_int(o)
        if z is None:
            return NotImplemented
        self._nz(z)
        return wrap_int(floordiv(self.z, z))

    def __rfloordiv__(self, o):
        z = to_z3_int(o)
        if z is None:
            return NotImplemented
        self._nz(self.z)
        return wrap_int(floordiv(z, self.z))

    def __mod__(self, o):
        z = to_z3_int(o)
        if z is None:
            return NotImplemented
        self._nz(z)
        return wrap_int(self.z - z * floordiv(self.z, z))

    def __rmod__(self, o):
        z = to_z3_int(o)
        if z is None:
            return NotImplemented
        self._nz(self.z)
        return wrap_int(z - self.z * floordiv(z, self.z))

    def __neg__(self):
        return wrap_int(-self.z)

    def __pos__(self):
        return self

    def __abs__(self):
        return wrap_int(z3.If(self.z >= 0, self.z, -self.z))

    def __and__(self, o):
        z = to_z3_int(o)
        if z is None:
            return NotImplemented
        return wrap_int(z3.BV2Int(z3.Int2BV(self.z, 64) & z3.Int2BV(z, 64)))

    __rand__ = __and__

    def __or__(self, o):
        z = to_z3_int(o)
        if z is None:
            return NotImplemented
        return wrap_int(z3.BV2Int(z3.Int2BV(self.z, 64) | z3.Int2BV(z, 64)))

    __ror__ = __or__

    # comparisons
    def _cmp(self, o, f):
        z = to_z3_int(o)
        if z is None:
            return NotImplemented
        return wrap_bool(f(self.z, z))

    def __eq__(self, o):
        z = to_z3_int(o)
        if z is None:
            return False
        return wrap_bool(self.z == z)

    def __ne__(self, o):
        z = to_z3_int(o)
        if z is None:
            return True
        return wrap_bool(self.z != z)

    def __lt__(self, o):
        return self._cmp(o, lambda a, b: a < b)

    def __le__(self, o):
        return self._cmp(o, lambda a, b: a <= b)

    def __gt__(self, o):
        return self._cmp(o, lambda a, b: a > b)

    def __ge__(self, o):
        return self._cmp(o, lambda a, b: a >= b)

    # forcing
    def __bool__(self):
        return _c().decide(self.z != 0)

    def __index__(self):
        return _c().concretize_int(self.z)

    __int__ = __index__

    def __hash__(self):
        return hash(_c().concretize_int(self.z))

    def __repr__(self):
        return f"<sym {self.z}>"

    __str__ = __repr__

    def __format__(self, spec):
        return repr(self)


class SymBool:
    __slots__ = ("z",)

    def __init__(self, z):
        self.z = z

    def __bool__(self):
        return _c().decide(self.z)

    def __eq__(self, o):
        if isinstance(o, SymBool | bool):
            return wrap_bool(self.z == to_z3_bool(o))
        z = to_z3_int(o)
        if z is None:
            return False
        return wrap_bool(to_z3_int(self) == z)

    def __ne__(self, o):
        r = self.__eq__(o)
        if isinstance(r, SymBool):
            return wrap_bool(z3.Not(r.z))
        return not r

    def __and__(self, o):
        z = to_z3_bool(o)
        if z is None:
            return NotImplemented
        return wrap_bool(z3.And(self.z, z))

    __rand__ = __and__

    def __or__(self, o):
        z = to_z3_bool(o)
        if z is None:
            return NotImplemented
        return wrap_bool(z3.Or(self.z, z))

    __ror__ = __or__

    def __xor__(self, o):
        z = to_z3_bool(o)
        if z is None:
            return NotImplemented
        return wrap_bool(z3.Xor(self.z, z))

    __rxor__ = __xor__

    def __invert__(self):
        # NB: harness-level logical negation (Python's ~True is -2; harnesses use sym.not_)
        return wrap_bool(z3.Not(self.z))

    def _asint(self):
        return SymInt(to_z3_int(self))

    def __add__(self, o):
        return self._asint() + o

    __radd__ = __add__

    def __lt__(self, o):
        return self._asint() < o

    def __le__(self, o):
        return self._asint() <= o

    def __gt__(self, o):
        return self._asint() > o

    def __ge__(self, o):
        return self._asint() >= o

    def __index__(self):
        return 1 if _c().decide(self.z) else 0

    __int__ = __index__

    def __hash__(self):
        return hash(bool(self))

    def __repr__(self):
        return f"<symb {self.z}>"

    __str__ = __repr__


def to_z3_str(x):
    if isinstance(x, SymStr):
        return x.z
    if isinstance(x, str):
        return z3.StringVal(x)
    return None


class SymStr:
    __slots__ = ("z",)

    def __init__(self, z):
        self.z = z

    def __add__(self, o):
        z = to_z3_str(o)
        if z is None:
            return NotImplemented
        return wrap_str(z3.Concat(self.z, z))

    def __radd__(self, o):
        z = to_z3_str(o)
        if z is None:
            return NotImplemented
        return wrap_str(z3.Concat(z, self.z))

    def __eq__(self, o):
        z = to_z3_str(o)
        if z is None:
            return False
        return wrap_bool(self.z == z)

    def __ne__(self, o):
        z = to_z3_str(o)
        if z is None:
            return True
        return wrap_bool(self.z != z)

    def __len__(self):
        # C-level len() needs a concrete int
        return _c().concretize_int(z3.Length(self.z))

    def sym_len(self):
        return wrap_int(z3.Length(self.z))

    def __getitem__(self, i):
        if isinstance(i, slice):
            if i.step not in (None, 1):
                raise TypeError("SymStr: extended slices unsupported")
            n = z3.Length(self.z)
            lo = to_z3_int(0 if i.start is None else i.start)
            hi = n if i.stop is None else to_z3_int(i.stop)
            lo = z3.If(lo < 0, z3.If(lo + n < 0, 0, lo + n), z3.If(lo > n, n, lo))
            hi = z3.If(hi < 0, z3.If(hi + n < 0, 0, hi + n), z3.If(hi > n, n, hi))
            return wrap_str(z3.SubString(self.z, lo, z3.If(hi > lo, hi - lo, 0)))
        zi = to_z3_int(i)
        n = z3.Length(self.z)
        if _c().decide(z3.Or(zi >= n, zi < -n)):
            raise IndexError("string index out of range")
        zi = z3.If(zi < 0, zi + n, zi)
        return wrap_str(z3.SubString(self.z, zi, 1))

    def __bool__(self):
        return _c().decide(z3.Length(self.z) > 0)

    def __contains__(self, o):
        z = to_z3_str(o)
        if z is None:
            raise TypeError("'in <string>' requires string as left operand")
        return bool(wrap_bool(z3.Contains(self.z, z)))

    def startswith(self, o):
        return wrap_bool(z3.PrefixOf(to_z3_str(o), self.z))

    def endswith(self, o):
        return wrap_bool(z3.SuffixOf(to_z3_str(o), self.z))

    def __hash__(self):
        return hash(_c().concretize_str(self.z))

    def concretize(self):
        return _c().concretize_str(self.z)

    def __repr__(self):
        return f"<syms {self.z}>"

    __str__ = __repr__

    def __format__(self, spec):
        return repr(self)


def int_to_str(x: SymInt):
    z = x.z
    # z3's str.from_int over unbounded integers is a solver time sink: when the path condition pins the
    # value to a handful of possibilities, build the string as an ite over those literals instead.
    # value to a handful of possibilities, fork over them and return a concrete string.
    vs = _c().value_set(z, 4)
    if vs is not None and vs:
        if all(0 <= v <= 9 for v in vs):
            return SymChars([z3.simplify(z + 48)])  # one decimal digit: a symbolic character, no string theory
        return str(_c().concretize_int(z))
    return wrap_str(z3.If(z >= 0, z3.IntToStr(z), z3.Concat(z3.StringVal("-"), z3.IntToStr(-z))))


class SymChars:
    """String of concrete length whose characters are symbolic code points (z3 Int terms or ints)."""
    __slots__ = ("cells",)

    def __init__(self, cells):
        self.cells = list(cells)

    @staticmethod
    def _cells_of(o):
        if isinstance(o, SymChars):
            return o.cells
        if isinstance(o, str):
            return [ord(ch) for ch in o]
        return None

    def __len__(self):
        return len(self.cells)

    def sym_len(self):
        return len(self.cells)

    def __add__(self, o):
        c = self._cells_of(o)
        if c is None:
            return NotImplemented
        return _mk_chars(self.cells + c)

    def __radd__(self, o):
        c = self._cells_of(o)
        if c is None:
            return NotImplemented
        return _mk_chars(c + self.cells)

    def _eqz(self, o):
        c = self._cells_of(o)
        if c is None:
            return None
        if len(c) != len(self.cells):
            return z3.BoolVal(False)
        cs = [(_zi(a) == _zi(b)) for a, b in zip(self.cells, c)]
        return z3.And(*cs) if cs else z3.BoolVal(True)

    def __eq__(self, o):
        z = self._eqz(o)
        return False if z is None else wrap_bool(z)

    def __ne__(self, o):
        z = self._eqz(o)
        return True if z is None else wrap_bool(z3.Not(z))

    def __getitem__(self, i):
        if isinstance(i, slice):
            return _mk_chars(self.cells[i])
        if isinstance(i, SymInt):
            i = i.__index__()
        return _mk_chars([self.cells[i]])

    def __iter__(self):
        return iter(_mk_chars([c]) for c in self.cells)

    def __bool__(self):
        return len(self.cells) > 0

    def concretize(self):
        return "".join(chr(_c().concretize_int(_zi(c))) for c in self.cells)

    def __hash__(self):
        return hash(self.concretize())

    def eval_under(self, model):
        return "".join(chr(model.eval(_zi(c), model_completion=True).as_long()) for c in self.cells)

    def __repr__(self):
        return f"<symchars {self.cells}>"

    __str__ = __repr__


def _zi(c):
    return c if z3.is_expr(c) else z3.IntVal(c)


def _mk_chars(cells):
    cells = [c.as_long() if (z3.is_expr(c) and z3.is_int_value(c)) else c for c in cells]
    if all(isinstance(c, int) for c in cells):
        return "".join(chr(c) for c in cells)
    return SymChars(cells)


class SymEnum:
    """Symbolic member of a (small) Enum class: an Int index into list(cls)."""
    __slots__ = ("cls", "z", "members")

    def __init__(self, cls, z):
        self.cls = cls
        self.z = z
        self.members = list(cls)

    def _idx(self, o):
        if isinstance(o, SymEnum):
            return o.z if o.cls is self.cls else None
        if isinstance(o, self.cls):
            return z3.IntVal(self.members.index(o))
        return None

    def __eq__(self, o):
        z = self._idx(o)
        if z is None:
            return False
        return wrap_bool(self.z == z)

    def __ne__(self, o):
        z = self._idx(o)
        if z is None:
            return True
        return wrap_bool(self.z != z)

    def concretize(self):
        return self.members[_c().concretize_int(self.z)]

    def __hash__(self):
        return hash(self.concretize())

    @property
    def value(self):
        return self.concretize().value

    @property
    def name(self):
        return self.concretize().name

    def __getattr__(self, name):
        # methods of the enum class: run on the concretized member
        if name.startswith("__"):
            raise AttributeError(name)
        return getattr(self.concretize(), name)

    def __repr__(self):
        return f"<symenum {self.cls.__name__} {self.z}>"

    __str__ = __repr__


def wrap_enum(cls, z):
    z = z3.simplify(z)
    if z3.is_int_value(z):
        return list(cls)[z.as_long()]
    return SymEnum(cls, z)
