"""Path context for symx: decisions, path condition, solver, obligations.

One `Ctx` is active at a time (module global `CTX`).  Exploration is by
deterministic re-execution: the harness is re-run from the start with a decision
prefix; at every symbolic branch `decide()` either follows the prefix or asks the
solver which sides are feasible and queues the alternative.
"""
from __future__ import annotations

import time
from typing import Any

import z3


class SymxSignal(BaseException):
    """Base of interpreter-internal signals (never caught by interpreted code)."""


class PathInfeasible(SymxSignal):
    pass


class Unsupported(SymxSignal):
    def __init__(self, what: str):
        super().__init__(what)
        self.what = what


class BoundExceeded(SymxSignal):
    def __init__(self, what: str):
        super().__init__(what)
        self.what = what


class SolverUnknown(SymxSignal):
    def __init__(self, what: str):
        super().__init__(what)
        self.what = what


class Stats:
    def __init__(self) -> None:
        self.q_unsat = 0
        self.q_sat = 0
        self.q_unknown = 0
        self.solver_s = 0.0
        self.functions: dict[str, dict] = {}
        self.stubs: set[str] = set()

    def merge(self, o: "Stats") -> None:
        self.q_unsat += o.q_unsat
        self.q_sat += o.q_sat
        self.q_unknown += o.q_unknown
        self.solver_s += o.solver_s
        self.functions.update(o.functions)
        self.stubs |= o.stubs


class Ctx:
    def __init__(self, prefix: list[bool], stats: Stats, timeout_ms: int = 60000, seed: int = 0,
                 max_enum: int = 64, loop_bound: int = 10_000):
        self.solver = z3.Solver()
        self.solver.set("timeout", timeout_ms)
        self.solver.set("random_seed", seed % (2**31))
        self.prefix = prefix
        self.decisions: list[bool] = []
        self.alternatives: list[list[bool]] = []
        self.pc: list[Any] = []
        self.stats = stats
        self.inputs: dict[str, Any] = {}  # name -> z3 const (declared symbolic inputs)
        self.input_meta: dict[str, Any] = {}
        self.extractors: dict[str, Any] = {}  # name -> fn(model) for structured inputs (SymMap, ...)
        self.checks: list[dict] = []  # {name, verdict, model?}
        self.observes: list[tuple[str, Any]] = []
        self.predicates: dict[str, Any] = {}
        self.max_enum = max_enum
        self.loop_bound = loop_bound
        self.fresh_n = 0
        self.model_cache = None
        self.concrete: dict[str, Any] | None = None  # concrete-mode valuation
        self.notes: list[str] = []

    # -- solver plumbing -------------------------------------------------
    def _check(self, *assumptions) -> str:
        t0 = time.time()
        r = self.solver.check(*assumptions)
        self.stats.solver_s += time.time() - t0
        s = str(r)
        if s == "unsat":
            self.stats.q_unsat += 1
        elif s == "sat":
            self.stats.q_sat += 1
        else:
            self.stats.q_unknown += 1
        return s

    def add(self, c) -> None:
        self.pc.append(c)
        self.solver.add(c)
        m = self.model_cache
        if m is not None:
            try:
                if not z3.is_true(m.eval(c, model_completion=True)):
                    self.model_cache = None
            except z3.Z3Exception:
                self.model_cache = None

    def fresh(self, base: str) -> str:
        self.fresh_n += 1
        return f"{base}!{self.fresh_n}"

    # -- branching ---------------------------------------------------------
    def decide(self, cond) -> bool:
        """Fork on a z3 Bool. Returns the side taken on this run."""
        cond = z3.simplify(cond)
        if z3.is_true(cond):
            return True
        if z3.is_false(cond):
            return False
        i = len(self.decisions)
        if i < len(self.prefix):
            choice = self.prefix[i]
            if not isinstance(choice, bool):
                raise RuntimeError("symx: non-deterministic re-execution (decision kind mismatch)")
            self.decisions.append(choice)
            self.add(cond if choice else z3.Not(cond))
            return choice
        # one of the two sides is usually decided by the cached model of the path condition
        m = self._model()
        rt = rf = None
        mt = mf = None
        if m is not None:
            v = m.eval(cond, model_completion=True)
            if z3.is_true(v):
                rt, mt = "sat", m
            elif z3.is_false(v):
                rf, mf = "sat", m
        if rt is None:
            rt = self._check(cond)
            if rt == "sat":
                mt = self.solver.model()
        if rf is None:
            rf = self._check(z3.Not(cond))
            if rf == "sat":
                mf = self.solver.model()
        if rt == "unknown" or rf == "unknown":
            raise SolverUnknown("feasibility check returned unknown")
        if rt == "sat" and rf == "sat":
            self.alternatives.append(self.decisions + [False])
            self.decisions.append(True)
            self.add(cond)
            self.model_cache = mt
            return True
        if rt == "sat":
            self.decisions.append(True)
            self.add(cond)
            self.model_cache = mt
            return True
        if rf == "sat":
            self.decisions.append(False)
            self.add(z3.Not(cond))
            self.model_cache = mf
            return False
        raise PathInfeasible()

    def _model(self):
        """A model of the current path condition (cached while it stays valid)."""
        if self.model_cache is not None:
            return self.model_cache
        r = self._check()
        if r == "sat":
            self.model_cache = self.solver.model()
            return self.model_cache
        if r == "unsat":
            raise PathInfeasible()
        return None

    def assume(self, cond) -> None:
        cond = z3.simplify(cond) if z3.is_expr(cond) else z3.BoolVal(bool(cond))
        if z3.is_true(cond):
            return
        self.add(cond)
        if z3.is_false(cond):
            raise PathInfeasible()
        # feasibility is checked lazily: at the next decide() or at path end

    def feasible(self) -> bool:
        r = self._check()
        if r == "unknown":
            raise SolverUnknown("path feasibility unknown")
        return r == "sat"

    def _concretize(self, term, is_val, mk, conv):
        term = z3.simplify(term)
        if is_val(term):
            return conv(term)
        for _ in range(self.max_enum):
            i = len(self.decisions)
            if i < len(self.prefix):
                choice, pv = self.prefix[i]
                cond = term == mk(pv)
                self.decisions.append((choice, pv))
                self.add(cond if choice else z3.Not(cond))
                if choice:
                    return pv
                continue
            m = self._model()
            if m is None:
                raise SolverUnknown("concretize")
            v = m.eval(term, model_completion=True)
            if not is_val(v):
                raise Unsupported(f"cannot concretize {term}")
            pv = conv(v)
            r2 = self._check(term != v)
            if r2 == "unknown":
                raise SolverUnknown("concretize")
            if r2 == "sat":
                self.alternatives.append(self.decisions + [(False, pv)])
            self.decisions.append((True, pv))
            self.add(term == v)
            return pv
        raise BoundExceeded(f"more than {self.max_enum} values for {term}")

    def value_set(self, term, limit: int = 4):
        """All values `term` can take under the path condition, or None if more than `limit`."""
        term = z3.simplify(term)
        if z3.is_int_value(term):
            return [term.as_long()]
        vals = []
        self.solver.push()
        try:
            while True:
                r = self._check()
                if r == "unknown":
                    return None
                if r == "unsat":
                    return vals
                if len(vals) >= limit:
                    return None
                v = self.solver.model().eval(term, model_completion=True)
                if not z3.is_int_value(v):
                    return None
                vals.append(v.as_long())
                self.solver.add(term != v)
        finally:
            self.solver.pop()

    def concretize_int(self, term) -> int:
        """Fork over the feasible values of an Int term (bounded enumeration)."""
        return self._concretize(term, z3.is_int_value, z3.IntVal, lambda v: v.as_long())

    def concretize_str(self, term) -> str:
        return self._concretize(term, z3.is_string_value, z3.StringVal, lambda v: v.as_string())

    # -- obligations -------------------------------------------------------
    def check(self, name: str, cond, info: Any = None) -> bool:
        """Record obligation `cond` at this point of the path. Returns True if valid."""
        if not z3.is_expr(cond):
            cond = z3.BoolVal(bool(cond))
        cond = z3.simplify(cond)
        self.ncheck = getattr(self, "ncheck", 0) + 1
        if z3.is_true(cond):
            self.checks.append({"name": name, "verdict": "ok", "trivial": True, "seq": self.ncheck})
            return True
        r = self._check(z3.Not(cond))
        if r == "unsat":
            self.checks.append({"name": name, "verdict": "ok", "trivial": False, "seq": self.ncheck})
            return True
        if r == "unknown":
            self.checks.append({"name": name, "verdict": "unknown"})
            raise SolverUnknown(f"check {name}")
        known_preds = [p for (cl, p) in getattr(self, "known", []) if cl == name]
        entries = []
        if known_preds:
            whole = any(p is None for p in known_preds)
            excl = [z3.Not(self.predicates[p]) for p in known_preds if p is not None and p in self.predicates]
            missing = [p for p in known_preds if p is not None and p not in self.predicates]
            if missing:
                self.notes.append(f"known-finding predicate(s) {missing} not declared before clause {name}")
            if not whole:
                r2 = self._check(z3.Not(cond), *excl)
                if r2 == "unknown":
                    raise SolverUnknown(f"check {name} (outside known findings)")
                if r2 == "sat":
                    m = self.solver.model()
                    entries.append({"name": name, "verdict": "cex", "model": self.model_inputs(m), "info": info,
                                    "preds": self.eval_predicates(m), "known": None})
            # the listed finding itself (report it, so that it is visible and re-validated)
            for p in known_preds:
                extra = [self.predicates[p]] if (p is not None and p in self.predicates) else []
                r3 = self._check(z3.Not(cond), *extra)
                if r3 == "sat":
                    m = self.solver.model()
                    entries.append({"name": name, "verdict": "cex", "model": self.model_inputs(m), "info": info,
                                    "preds": self.eval_predicates(m), "known": p or "*"})
        else:
            m = self.solver.model()
            entries.append({"name": name, "verdict": "cex", "model": self.model_inputs(m), "info": info,
                            "preds": self.eval_predicates(m), "known": None})
        for e in entries:
            e["seq"] = self.ncheck
        self.checks.extend(entries)
        # continue the path under the assumption that the clause holds (if possible); a clause that is
        # concretely false on this path cannot be assumed: the path simply goes on, so that the
        # remaining (independent) clauses of the harness are still evaluated
        if z3.is_false(cond):
            return False
        self.add(cond)
        if self._check() != "sat":
            raise PathInfeasible()
        return False

    def model_inputs(self, m) -> dict[str, Any]:
        out = {}
        for name, const in self.inputs.items():
            v = m.eval(const, model_completion=True)
            out[name] = z3_to_py(v)
        for name, fn in self.extractors.items():
            out[name] = fn(m)
        return out

    def eval_predicates(self, m) -> dict[str, bool]:
        out = {}
        for name, p in self.predicates.items():
            v = m.eval(p, model_completion=True)
            out[name] = bool(z3.is_true(v))
        return out


def z3_to_py(v):
    if z3.is_int_value(v):
        return v.as_long()
    if z3.is_true(v):
        return True
    if z3.is_false(v):
        return False
    if z3.is_string_value(v):
        return v.as_string()
    if z3.is_bv_value(v):
        return v.as_long()
    return str(v)


CTX: Ctx | None = None


def cur() -> Ctx:
    if CTX is None:
        raise RuntimeError("no active symx context")
    return CTX


def set_ctx(c: Ctx | None) -> None:
    global CTX
    CTX = c
