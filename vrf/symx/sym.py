"""Harness vocabulary. Dual mode: symbolic (under the interpreter, values are proxies
backed by z3 constants) and concrete (plain CPython replay of the same harness with
the values of a solver model)."""
from __future__ import annotations

import builtins

import z3

from . import ctx as _ctx
from .values import SymBool, SymInt, SymStr, to_z3_bool, wrap_bool, wrap_int

_int = builtins.int
_bool = builtins.bool
_str = builtins.str


class AssumeFailed(BaseException):
    """Concrete replay hit a false assumption (means: engine divergence)."""


class Concrete:
    """Concrete-mode context: valuation of the declared inputs."""

    def __init__(self, valuation: dict):
        self.valuation = valuation
        self.checks: list[tuple[str, bool]] = []
        self.observes: list[tuple[str, object]] = []
        self.notes: list[str] = []


CONC: Concrete | None = None


def set_concrete(c: Concrete | None) -> None:
    global CONC
    CONC = c


def symbolic() -> bool:
    return CONC is None


def int(name: str, lo=None, hi=None):  # noqa: A001
    if CONC is not None:
        return CONC.valuation[name]
    c = _ctx.cur()
    if name in c.inputs:
        raise RuntimeError(f"duplicate symbolic input {name}")
    z = z3.Int(name)
    c.inputs[name] = z
    if lo is not None:
        c.add(z >= lo)
    if hi is not None:
        c.add(z <= hi)
    return SymInt(z)


def bool(name: str):  # noqa: A001
    if CONC is not None:
        return CONC.valuation[name]
    c = _ctx.cur()
    if name in c.inputs:
        raise RuntimeError(f"duplicate symbolic input {name}")
    z = z3.Bool(name)
    c.inputs[name] = z
    return SymBool(z)


def str(name: str, maxlen=None):  # noqa: A001
    if CONC is not None:
        return CONC.valuation[name]
    c = _ctx.cur()
    z = z3.String(name)
    c.inputs[name] = z
    if maxlen is not None:
        c.add(z3.Length(z) <= maxlen)
    return SymStr(z)


def enum(name: str, cls):
    """Symbolic member of an Enum class (no fork until something forces it)."""
    members = list(cls)
    if CONC is not None:
        return members[CONC.valuation[name]]
    from .values import SymEnum
    i = int(name, 0, len(members) - 1)
    return SymEnum(cls, i.z)


def choice(name: str, pool):
    """Symbolic index into a concrete pool; forks per feasible index."""
    i = int(name, 0, len(pool) - 1)
    if CONC is not None:
        return pool[i]
    return pool[i.__index__()] if isinstance(i, SymInt) else pool[i]


def concretize(x):
    """Fork over the values of a symbolic scalar, returning a concrete one."""
    if isinstance(x, SymInt):
        return x.__index__()
    if isinstance(x, SymBool):
        return x.__bool__()
    if isinstance(x, SymStr):
        return x.concretize()
    from .values import SymEnum
    if isinstance(x, SymEnum):
        return x.concretize()
    return x


def assume(cond) -> None:
    if CONC is not None:
        if not cond:
            raise AssumeFailed()
        return
    c = _ctx.cur()
    if isinstance(cond, SymBool):
        c.assume(cond.z)
    elif isinstance(cond, SymInt):
        c.assume(cond.z != 0)
    elif not cond:
        raise _ctx.PathInfeasible()


def predicate(name: str, cond) -> None:
    """Named predicate over the inputs (used by known-findings to delimit a finding)."""
    if CONC is not None:
        return
    z = to_z3_bool(cond)
    _ctx.cur().predicates[name] = z if z is not None else z3.BoolVal(_bool(cond))


def check(name: str, cond, info=None) -> None:
    if CONC is not None:
        CONC.checks.append((name, _bool(cond)))
        return
    c = _ctx.cur()
    z = to_z3_bool(cond)
    if z is None:
        if isinstance(cond, SymInt):
            z = cond.z != 0
        else:
            z = z3.BoolVal(_bool(cond))
    c.check(name, z, info)


def observe(name: str, value) -> None:
    if CONC is not None:
        CONC.observes.append((name, value))
        return
    _ctx.cur().observes.append((name, value))


def note(msg: str) -> None:
    (CONC.notes if CONC is not None else _ctx.cur().notes).append(msg)


# logical helpers that stay symbolic (no forking)
def and_(*xs):
    if CONC is not None:
        return all(xs)
    zs = [_zb(x) for x in xs]
    return wrap_bool(z3.And(*zs))


def or_(*xs):
    if CONC is not None:
        return any(xs)
    zs = [_zb(x) for x in xs]
    return wrap_bool(z3.Or(*zs))


def not_(x):
    if CONC is not None:
        return not x
    return wrap_bool(z3.Not(_zb(x)))


def implies(a, b):
    if CONC is not None:
        return (not a) or _bool(b)
    return wrap_bool(z3.Implies(_zb(a), _zb(b)))


def iff(a, b):
    if CONC is not None:
        return _bool(a) == _bool(b)
    return wrap_bool(_zb(a) == _zb(b))


def ite(c, a, b):
    if CONC is not None:
        return a if c else b
    from .values import to_z3_int
    zc = _zb(c)
    za, zb = to_z3_bool(a), to_z3_bool(b)
    if za is not None and zb is not None:
        return wrap_bool(z3.If(zc, za, zb))
    ia, ib = to_z3_int(a), to_z3_int(b)
    if ia is not None and ib is not None:
        return wrap_int(z3.If(zc, ia, ib))
    raise TypeError("sym.ite on non-scalar values")


def _zb(x):
    z = to_z3_bool(x)
    if z is not None:
        return z
    if isinstance(x, SymInt):
        return x.z != 0
    return z3.BoolVal(_bool(x))


def is_symbolic(x) -> _bool:
    from .values import is_sym
    return is_sym(x)
