"""SymBytes: bytes of concrete length whose cells are symbolic (0..255)."""
from __future__ import annotations

import z3

from . import ctx as _ctx
from . import sym as _sym
from .values import SymInt, to_z3_int, wrap_bool


class SymBytes:
    def __init__(self, cells):
        self.cells = list(cells)

    def __len__(self):
        return len(self.cells)

    def __getitem__(self, i):
        if isinstance(i, slice):
            return SymBytes(self.cells[i])
        if isinstance(i, SymInt):
            i = i.__index__()
        return self.cells[i]

    def __iter__(self):
        return iter(self.cells)

    def _eqz(self, o):
        if isinstance(o, SymBytes):
            oc = o.cells
        elif isinstance(o, bytes | bytearray):
            oc = list(o)
        else:
            return None
        if len(oc) != len(self.cells):
            return z3.BoolVal(False)
        return z3.And(*[to_z3_int(a) == to_z3_int(b) for a, b in zip(self.cells, oc)]) if oc else z3.BoolVal(True)

    def __eq__(self, o):
        z = self._eqz(o)
        return False if z is None else wrap_bool(z)

    def __ne__(self, o):
        z = self._eqz(o)
        return True if z is None else wrap_bool(z3.Not(z))

    def __hash__(self):
        return hash(bytes(c.__index__() if isinstance(c, SymInt) else c for c in self.cells))

    def __bytes__(self):
        return bytes(c.__index__() if isinstance(c, SymInt) else c for c in self.cells)

    def __repr__(self):
        return f"<symbytes len={len(self.cells)}>"


def make(name: str, length: int):
    """`length` symbolic byte cells (concrete mode: real bytes)."""
    if _sym.CONC is not None:
        return bytes(_sym.CONC.valuation[f"{name}[{i}]"] for i in range(length))
    return SymBytes([_sym.int(f"{name}[{i}]", 0, 255) for i in range(length)])
