"""vcheck driver: run all lemmas of a property, write evidence, print verdict lines.

exit 0: every lemma held within its bounds (known findings printed as KNOWN-FINDING)
exit 1: >= 1 reproduced violation that known_findings.json does not list
exit 2: inconclusive (unsupported construct, bound exceeded, solver unknown, engine divergence,
        non-reproducing counterexample, vacuous harness)
"""
from __future__ import annotations

import argparse
import hashlib
import importlib
import json
import multiprocessing as mp
import os
import sys
import time
import traceback

ROOT = os.path.dirname(os.path.dirname(os.path.abspath(__file__)))


def _load(prop: str):
    from vrf import lemma as L
    importlib.import_module(f"vrf.harness.{prop.lower()}")
    return L.REGISTRY.get(prop, [])


def load_known(prop: str):
    p = os.environ.get("VERIF_KNOWN_FILE") or os.path.join(ROOT, "known_findings.json")  # (env override: self-test of this mechanism only)
    if not os.path.exists(p):
        return []
    data = json.load(open(p))
    return [f for f in data.get("findings", []) if f.get("property") == prop]


def _run_task(task):
    prop, lname, pidx, tier, seed, override = task
    try:
        import pyzstd  # noqa: F401  (pre-import: see DESIGN §1)
    except Exception:  # noqa: BLE001
        pass
    from vrf import lemma as L
    L.set_tier(tier)
    os.environ["VERIF_TIER"] = tier
    t0 = time.time()
    try:
        lemmas = _load(prop)
        lm = next(x for x in lemmas if x.name == lname)
        args = lm.param_list()[pidx]
        known = [(f["clause"], f.get("predicate")) for f in load_known(prop)
                 if f.get("status") == "known" and f.get("lemma") == lname]
        label = lname + (f"[{','.join(_short(a) for a in args)}]" if args else "")
        if lm.kind == "custom":
            r = lm.fn(*args, known=known, seed=seed)
            return {"kind": "custom", "lemma": lname, "label": label, "verdict": r.verdict, "obligations": r.obligations,
                    "discharged": r.discharged, "violations": r.violations, "notes": r.notes, "samples": r.samples,
                    "q_sat": r.q_sat, "q_unsat": r.q_unsat, "q_unknown": r.q_unknown, "solver_s": r.solver_s,
                    "functions": r.functions, "replayed": r.replayed, "wall_s": time.time() - t0, "extra": r.extra,
                    "args": [_short(a) for a in args]}
        from vrf.symx.explore import explore
        import functools
        fn = functools.partial(lm.fn, *args) if args else lm.fn
        opts = dict(lm.opts)
        topts = opts.pop(tier, {})
        opts = {k: v for k, v in opts.items() if k not in ("quick", "thorough", "optional_clauses", "replay_fn")}
        opts.update(topts)
        if tier == "thorough":
            # thorough tier: exploration budgets are sized for completion (an exhausted budget is inconclusive, never a pass)
            opts["max_paths"] = max(opts.get("max_paths", 0), 3_000_000)
            opts["timeout_s"] = max(opts.get("timeout_s", 0), 14400)   # a safety net only: the size of a thorough run is set by the harness bounds
        if tier == "quick":
            # quick tier: no lemma explores for more than 20 min (about 5x the slowest lemma on the unchanged tree); a change that makes
            # the exploration explode then ends as a violation found so far or as inconclusive, not as an hour-long run
            opts["timeout_s"] = min(opts.get("timeout_s", 600.0), 1200.0)
        opts.update(override)
        r = explore(label, fn, allowed_exc=lm.raises, seed=seed, known=known, **opts)
        # vacuity guard: every clause named literally in the harness must have been reached on some path
        import inspect
        import re
        try:
            src = inspect.getsource(lm.fn)
            expected = set(re.findall(r'sym\.check\(\s*"([^"{}]+)"', src))
        except (OSError, TypeError):
            expected = set()
        optional = set(lm.opts.get("optional_clauses", ()))
        missing = sorted(c for c in expected - optional if c not in r.clause_counts)
        if missing and not r.truncated:
            r.inconclusive.append(f"VACUOUS: clause(s) never reached on any path: {missing}")
        return {"kind": "symx", "lemma": lname, "label": label, "verdict": r.verdict, "paths": r.paths, "ok_paths": r.ok_paths,
                "exc_paths": r.exc_paths, "checks_ok": r.checks_ok, "checks_nontrivial": r.checks_nontrivial,
                "cex": [{"clause": c.clause, "inputs": c.inputs, "preds": c.preds, "info": _s(c.info), "reproduced": c.reproduced,
                         "detail": c.detail, "known": c.known} for c in r.cex],
                "inconclusive": r.inconclusive[:20], "n_inconclusive": len(r.inconclusive), "replayed": r.replayed,
                "divergences": r.divergences[:10],
                "n_divergences": len(r.divergences), "q_sat": r.stats.q_sat, "q_unsat": r.stats.q_unsat,
                "q_unknown": r.stats.q_unknown, "solver_s": r.stats.solver_s, "functions": r.stats.functions,
                "stubs": sorted(r.stats.stubs), "samples": r.samples, "wall_s": r.wall_s, "clause_counts": r.clause_counts,
                "reach": r.reach, "decisions": getattr(r, "decisions", 0), "args": [_short(a) for a in args]}
    except BaseException as e:  # noqa: BLE001
        return {"kind": "error", "lemma": lname, "label": f"{lname}#{pidx}", "verdict": "inconclusive",
                "error": "".join(traceback.format_exception(type(e), e, e.__traceback__))[-3000:], "wall_s": time.time() - t0}


def _short(a) -> str:
    s = getattr(a, "__name__", None) or str(a)
    return s if len(s) <= 40 else s[:37] + "..."


def _s(x):
    if x is None or isinstance(x, str | int | float | bool):
        return x
    try:
        json.dumps(x)
        return x
    except Exception:  # noqa: BLE001
        return repr(x)[:500]


def write_replay(prop, lname, args, clause, inputs, detail, tier) -> str:
    d = os.path.join(ROOT, "replays")
    os.makedirs(d, exist_ok=True)
    h = hashlib.sha1(json.dumps([lname, args, clause, inputs], sort_keys=True, default=str).encode()).hexdigest()[:10]
    path = os.path.join(d, f"{prop}-{lname}-{h}.json")
    json.dump({"property": prop, "lemma": lname, "args": args, "clause": clause, "inputs": inputs, "tier": tier,
               "detail": detail, "how": f"bin/vcheck replay {os.path.relpath(path, ROOT)}"}, open(path, "w"), indent=1, default=str)
    return os.path.relpath(path, ROOT)


def cmd_replay(path: str) -> int:
    data = json.load(open(path if os.path.isabs(path) else os.path.join(ROOT, path)))
    from vrf import lemma as L
    L.set_tier(data.get("tier", "quick"))
    lemmas = _load(data["property"])
    lm = next(x for x in lemmas if x.name == data["lemma"])
    args = None
    for cand in lm.param_list():
        if [_short(a) for a in cand] == data.get("args", []):
            args = cand
    if args is None:
        print("replay: parameter instance not found", data.get("args"))
        return 2
    if lm.kind == "custom":
        rp = lm.opts.get("replay")
        if rp is None:
            print("replay: custom lemma without replay function")
            return 2
        ok = rp(data)
        print("REPRODUCED" if ok else "not reproduced", data["clause"])
        return 1 if ok else 0
    from vrf.symx.explore import run_concrete
    import functools
    fn = functools.partial(lm.fn, *args) if args else lm.fn
    outcome, conc = run_concrete(fn, data["inputs"], lm.raises)
    clause = data["clause"]
    print("outcome:", outcome, conc.notes)
    for n, v in conc.checks:
        print("  clause", n, "=", v)
    if clause.startswith("no_unexpected_exception:"):
        rep = outcome == "exception:" + clause.split(":", 1)[1]
    else:
        rep = any(n == clause and v is False for n, v in conc.checks)
    print("REPRODUCED" if rep else "not reproduced", clause)
    return 1 if rep else 0


def _worker_init():
    """Workers die with the driver (Linux PR_SET_PDEATHSIG): a check that is killed from outside leaves nothing running."""
    try:
        import ctypes
        import signal
        ctypes.CDLL("libc.so.6", use_errno=True).prctl(1, signal.SIGKILL)
    except Exception:  # noqa: BLE001
        pass


def main(argv=None) -> int:
    ap = argparse.ArgumentParser()
    ap.add_argument("prop")
    ap.add_argument("rest", nargs="*")
    ap.add_argument("--tier", default=os.environ.get("VERIF_TIER", "quick"))
    ap.add_argument("--jobs", type=int, default=int(os.environ.get("VERIF_JOBS", "0")) or min(16, os.cpu_count() or 4))
    ap.add_argument("--only", default=None, help="run only lemmas whose name contains this")
    ap.add_argument("--no-evidence", action="store_true")
    ap.add_argument("--max-paths", type=int, default=None)
    ap.add_argument("--timeout", type=float, default=None, help="per-lemma exploration budget (s)")
    a = ap.parse_args(argv)
    if a.prop == "replay":
        return cmd_replay(a.rest[0])
    prop = a.prop.upper()
    tier = a.tier
    seed = int(os.environ.get("VERIF_SEED", "0") or 0)
    os.environ["VERIF_TIER"] = tier
    from vrf import lemma as L
    L.set_tier(tier)
    t0 = time.time()
    lemmas = [lm for lm in _load(prop) if tier in lm.tiers and (a.only is None or a.only in lm.name)]
    if not lemmas:
        print(f"no lemmas registered for {prop}")
        return 2
    tasks = []
    override = {}
    if a.max_paths is not None:
        override["max_paths"] = a.max_paths
    if a.timeout is not None:
        override["timeout_s"] = a.timeout
    for lm in lemmas:
        for i, _ in enumerate(lm.param_list()):
            tasks.append((prop, lm.name, i, tier, seed, override))
    if a.jobs <= 1 or len(tasks) == 1:
        results = [_run_task(t) for t in tasks]
    else:
        ctx = mp.get_context("spawn")
        with ctx.Pool(min(a.jobs, len(tasks)), initializer=_worker_init) as pool:
            results = []
            for r in pool.imap(_run_task, tasks, chunksize=1):
                results.append(r)
                print(f"  .. {r['label']}: {r['verdict']} ({r.get('wall_s', 0):.1f}s)", file=sys.stderr, flush=True)
    # engine validation on the repository's own tests (through the interpreter), every run
    selftest = None
    if a.only is None:
        from vrf import selftest as _st
        selftest = _st.run()
        if selftest["failed"]:
            print("ENGINE-SELFTEST FAILED (interpreter disagrees with CPython on the repository's own tests):")
            for f in selftest["failed"][:5]:
                print("  ", f[:400])
    known = load_known(prop)
    rc = 0 if not (selftest and selftest["failed"]) else 2
    violations = 0
    known_hits = []
    lines = []
    by_lemma = {lm.name: lm for lm in lemmas}
    for r in results:
        v = r["verdict"]
        lines.append(f"[{prop}] {r['label']}: {v} ({_summary(r)})")
        if r["kind"] == "error":
            lines.append(r["error"])
            rc = max(rc, 2)
            continue
        if r["kind"] == "symx":
            seen_v = set()
            for c in r["cex"]:
                if c["known"] is None and c["reproduced"]:
                    if c["clause"] in seen_v:
                        continue
                    seen_v.add(c["clause"])
                if c["known"] is not None:
                    if c["reproduced"]:
                        known_hits.append((r["lemma"], c["clause"], c["known"], c["inputs"]))
                    continue
                if c["reproduced"]:
                    violations += 1
                    rp = write_replay(prop, r["lemma"], r["args"], c["clause"], c["inputs"], c["detail"], tier)
                    lines.append(f"VIOLATION property={prop} replay={rp}")
                    lines.append(f"  lemma={r['label']} clause={c['clause']} inputs={c['inputs']} preds={c['preds']} info={c['info']}")
                    rc = max(rc, 1) if rc != 2 else rc
                else:
                    lines.append(f"  NON-REPRODUCING counterexample (harness/engine problem): clause={c['clause']} inputs={c['inputs']} {c['detail']} info={c['info']}")
            for d in r["divergences"]:
                lines.append(f"  ENGINE-DIVERGENCE: {d}")
            for d in r["inconclusive"][:5]:
                lines.append(f"  {d}")
        else:
            for c in r["violations"]:
                if c.get("known") is not None:
                    known_hits.append((r["lemma"], c["clause"], c["known"], c.get("inputs")))
                    continue
                violations += 1
                rp = write_replay(prop, r["lemma"], r["args"], c["clause"], c.get("inputs"), c.get("detail", ""), tier)
                lines.append(f"VIOLATION property={prop} replay={rp}")
                lines.append(f"  lemma={r['label']} clause={c['clause']} detail={c.get('detail', '')}")
            for n in r["notes"][:10]:
                lines.append(f"  note: {n}")
        if v == "inconclusive":
            rc = 2 if violations == 0 else rc
        elif v == "violated":
            pass
    if violations:
        rc = 1
    # KNOWN-FINDING lines (one per listed finding that was hit)
    seen = set()
    for (ln, clause, pred, inputs) in known_hits:
        key = (ln, clause, pred)
        if key in seen:
            continue
        seen.add(key)
        what = next((f.get("what", "") for f in known if f.get("lemma") == ln and f.get("clause") == clause
                     and (f.get("predicate") or "*") == pred), "")
        lines.append(f"KNOWN-FINDING: property={prop} {ln}/{clause} [{pred}] {what} e.g. inputs={inputs}")
    wall = time.time() - t0
    print("\n".join(lines))
    print(f"[{prop}] tier={tier} lemmas={len(lemmas)} tasks={len(tasks)} violations={violations} "
          f"known_findings_hit={len(seen)} exit={rc} wall={wall:.1f}s")
    if not a.no_evidence and a.only is None:
        write_evidence(prop, tier, seed, lemmas, results, violations, sorted(seen), wall, rc, selftest)
    return rc


def _summary(r) -> str:
    if r["kind"] == "symx":
        return (f"paths={r['paths']} obligations_ok={r['checks_ok']} cex={len(r['cex'])} replayed={r['replayed']} "
                f"q={r['q_sat']}sat/{r['q_unsat']}unsat/{r['q_unknown']}unk solver={r['solver_s']:.1f}s wall={r['wall_s']:.1f}s")
    if r["kind"] == "custom":
        return (f"obligations={r['obligations']} discharged={r['discharged']} violations={len(r['violations'])} "
                f"q={r['q_sat']}sat/{r['q_unsat']}unsat/{r['q_unknown']}unk solver={r['solver_s']:.1f}s wall={r['wall_s']:.1f}s")
    return "error"


def write_evidence(prop, tier, seed, lemmas, results, violations, known_hit, wall, rc, selftest=None):
    funcs = {}
    paths = obligations = nontriv = replayed = qs = qu = qk = 0
    solver_s = 0.0
    decisions = 0
    samples = []
    per_lemma = []
    stubs = set()
    for r in results:
        if r["kind"] == "error":
            per_lemma.append({"lemma": r["label"], "verdict": "error"})
            continue
        funcs.update(r.get("functions", {}))
        qs += r["q_sat"]
        qu += r["q_unsat"]
        qk += r["q_unknown"]
        solver_s += r["solver_s"]
        replayed += r.get("replayed", 0)
        if r["kind"] == "symx":
            paths += r["paths"]
            obligations += r["checks_ok"]
            nontriv += r["checks_nontrivial"]
            decisions += r["q_sat"] + r["q_unsat"]
            stubs |= set(r.get("stubs", []))
            per_lemma.append({"lemma": r["label"], "verdict": r["verdict"], "paths": r["paths"], "reach": r["reach"],
                              "clauses": r["clause_counts"], "cex": len(r["cex"]), "wall_s": round(r["wall_s"], 2)})
        else:
            paths += r["obligations"]
            obligations += r["discharged"]
            nontriv += r["discharged"]
            decisions += r["q_sat"] + r["q_unsat"]
            per_lemma.append({"lemma": r["label"], "verdict": r["verdict"], "obligations": r["obligations"],
                              "discharged": r["discharged"], "extra": r.get("extra", {}), "wall_s": round(r["wall_s"], 2)})
        for s in r.get("samples", [])[:2]:
            if len(samples) < 12:
                samples.append({"lemma": r["label"], **(s if isinstance(s, dict) else {"case": s})})
    bounds = {lm.name: {"bounds": lm.bounds, "outside": lm.outside, "unbounded_in": lm.unbounded} for lm in lemmas}
    ev = {
        "property_id": prop, "tier": tier, "seed": seed, "level": "other" if prop == "C17" else "model_checking",
        "coverage": {
            "states": max(paths, 0), "transitions": max(decisions, 0), "traces_validated_against_impl": replayed,
            "samples": samples or [{"note": "no sample"}],
            "evaluations": paths, "distinct_nontrivial": nontriv,
            "rule": "one evaluation = one feasible symbolic path (a path-condition class of inputs) of a lemma harness, or one "
                    "solver obligation of a custom encoding; non-trivial = obligation whose negation needed a solver query "
                    "(not syntactically true) and came back unsat",
            "obligations_valid": obligations, "queries": {"sat": qs, "unsat": qu, "unknown": qk},
            "solver_time_s": round(solver_s, 2), "functions_encoded": funcs, "lemmas": per_lemma, "bounds": bounds,
            "stubs": sorted(stubs), "known_findings_hit": [list(k) for k in known_hit], "exit_code": rc,
            "engine_selftest": ({"repo_tests_run_through_interpreter": selftest["ran"], "passed": selftest["passed"],
                                 "failed": selftest["failed"][:5], "skipped": selftest["skipped"][:10]} if selftest else None),
            "explanation": "bounded symbolic execution of the current /repo source by symx (AST interpreter -> z3); "
                           "each feasible path is also replayed natively in CPython on a model of its path condition",
        },
        "assumptions": [
            "z3 verdicts; symx interpreter semantics (validated per path by native differential replay)",
            "claims are bounded as stated per lemma in coverage.bounds; nothing is claimed outside those bounds",
        ],
        "wall_s": round(wall, 2), "violations": violations,
    }
    if ev["coverage"]["states"] < 1:
        ev["coverage"]["states"] = 1
    if ev["coverage"]["transitions"] < 1:
        ev["coverage"]["transitions"] = 1
    d = os.path.join(ROOT, "evidence")
    os.makedirs(d, exist_ok=True)
    json.dump(ev, open(os.path.join(d, f"{prop}.json"), "w"), indent=1, default=str)


if __name__ == "__main__":
    sys.exit(main())
