"""Engine validation on the repository's own tests (Serval-style): the stable-pass test functions that
need no fixtures are executed *through the interpreter* and must pass exactly as they do natively."""
from __future__ import annotations

import importlib.util
import os
import sys
import time
import traceback

TESTS = {
    "test_bimap.py": ["test_insert_left", "test_insert_right", "test_delete_left", "test_delete_right", "test_iter", "test_len",
                      "test_existing_key", "test_bimap_init"],
    "test_nodes.py": ["test_index", "test_slices"],
    "test_qsys_result.py": ["test_as_dict", "test_to_register_bits", "test_counter", "test_collate_tag"],
    "test_tys.py": ["test_sums", "test_list", "test_array", "test_static_array"],
    "test_val.py": ["test_sums"],
    "test_prelude.py": ["test_string_val"],
    "test_envelope.py": ["test_envelope"],
    "test_custom.py": ["test_registry", "test_custom_bad_eq"],
    "test_hugr_build.py": ["test_stable_indices", "test_ancestral_sibling", "test_insert", "test_invalid_recursive_function"],
    "test_cond_loop.py": ["test_incomplete"],
}


def run(limit_s: float = 120.0) -> dict:
    root = os.environ.get("VERIF_REPO", "/repo")
    tdir = os.path.join(root, "hugr-py", "tests")
    from vrf.symx import ctx as C
    from vrf.symx import interp as I
    from vrf.symx.ctx import Ctx, Stats
    res = {"ran": 0, "passed": 0, "failed": [], "skipped": [], "wall_s": 0.0}
    t0 = time.time()
    if not os.path.isdir(tdir):
        res["skipped"].append("tests directory not found")
        return res
    sys.path.insert(0, os.path.join(root, "hugr-py"))
    for fname, names in TESTS.items():
        path = os.path.join(tdir, fname)
        if not os.path.exists(path):
            res["skipped"].append(fname)
            continue
        modname = "tests." + fname[:-3]
        try:
            mod = importlib.import_module(modname)
        except Exception as e:  # noqa: BLE001
            res["skipped"].append(f"{fname}: import failed: {type(e).__name__}")
            continue
        if "tests." not in I.ALLOWED_PREFIXES:
            I.ALLOWED_PREFIXES.append("tests.")
        for n in names:
            if time.time() - t0 > limit_s:
                res["skipped"].append(f"{fname}::{n} (time)")
                continue
            fn = getattr(mod, n, None)
            if fn is None:
                res["skipped"].append(f"{fname}::{n} (absent)")
                continue
            # native first: only tests that pass natively are meaningful for the comparison
            try:
                fn()
            except Exception:  # noqa: BLE001
                res["skipped"].append(f"{fname}::{n} (fails natively)")
                continue
            res["ran"] += 1
            c = Ctx([], Stats())
            C.set_ctx(c)
            try:
                I.INTERP.depth = 0
                I.INTERP.call(fn)
                res["passed"] += 1
            except BaseException as e:  # noqa: BLE001
                res["failed"].append(f"{fname}::{n}: {type(e).__name__}: {str(e)[:200]} | " + "".join(traceback.format_tb(e.__traceback__)[-2:])[-300:])
            finally:
                C.set_ctx(None)
    res["wall_s"] = round(time.time() - t0, 2)
    return res


if __name__ == "__main__":
    import json
    print(json.dumps(run(), indent=1))
