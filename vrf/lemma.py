"""Lemma registry and tier parameters."""
from __future__ import annotations

import os
from dataclasses import dataclass, field
from typing import Any, Callable

TIER = os.environ.get("VERIF_TIER", "quick")


def set_tier(t: str) -> None:
    global TIER
    TIER = t


def P(quick, thorough=None):
    """Tier-dependent bound parameter."""
    if TIER == "thorough" and thorough is not None:
        return thorough
    return quick


@dataclass
class Lemma:
    prop: str
    name: str
    fn: Callable
    raises: tuple = ()
    params: Callable | list | None = None  # list of argument tuples (or callable returning it)
    bounds: str = ""
    outside: str = ""
    unbounded: str = ""  # which inputs are unbounded (only loop unrollings bounded)
    tiers: tuple = ("quick", "thorough")
    opts: dict = field(default_factory=dict)
    kind: str = "symx"  # symx | custom
    doc: str = ""

    def param_list(self) -> list[tuple]:
        if self.params is None:
            return [()]
        ps = self.params() if callable(self.params) else self.params
        return [p if isinstance(p, tuple) else (p,) for p in ps]


REGISTRY: dict[str, list[Lemma]] = {}


def lemma(prop: str, name: str | None = None, **kw):
    def deco(fn):
        lm = Lemma(prop, name or fn.__name__, fn, doc=(fn.__doc__ or "").strip(), **kw)
        REGISTRY.setdefault(prop, []).append(lm)
        fn._lemma = lm
        return fn

    return deco


@dataclass
class CustomResult:
    """Result of a non-symx (custom solver encoding) lemma; same reporting shape."""
    name: str
    verdict: str  # holds | violated | inconclusive
    obligations: int = 0
    discharged: int = 0
    violations: list = field(default_factory=list)  # dicts: clause, inputs, detail, known
    notes: list = field(default_factory=list)
    samples: list = field(default_factory=list)
    q_sat: int = 0
    q_unsat: int = 0
    q_unknown: int = 0
    solver_s: float = 0.0
    functions: dict = field(default_factory=dict)
    replayed: int = 0
    wall_s: float = 0.0
    extra: dict = field(default_factory=dict)


def native(fn):
    """Mark a harness helper to be run natively by CPython (not interpreted): for code that only
    prepares concrete inputs and is not the subject of the lemma."""
    fn._symx_native = True
    return fn
