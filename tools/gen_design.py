#!/usr/bin/env python3
"""Assemble /verif/DESIGN.md from docs_src/part*.md and the generated tables."""
import os
ROOT = os.path.dirname(os.path.dirname(os.path.abspath(__file__)))
def rd(n):
    p = os.path.join(ROOT, "docs_src", n)
    return open(p).read() if os.path.exists(p) else f"(not generated yet: {n})\n"
txt = rd("part1.md") + rd("part2.md").replace("@@FIXES@@", rd("docs_fixes.md")) + rd("part3.md").replace("@@LEMMAS@@", rd("docs_lemmas.md")).replace("@@SEEDS@@", rd("docs_seeds.md"))
open(os.path.join(ROOT, "DESIGN.md"), "w").write(txt)
print(len(txt.splitlines()), "lines")
