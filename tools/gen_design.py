#!/usr/bin/env python3
"""Assemble /verif/DESIGN.md from docs_src/part*.md and the generated tables."""
import os
ROOT = os.path.dirname(os.path.dirname(os.path.abspath(__file__)))
def rd(n):
    p = os.path.join(ROOT, "docs_src", n)
    return open(p).read() if os.path.exists(p) else f"(not generated yet: {n})\n"
import glob, json
THOROUGH = os.path.join(ROOT, "docs_src", "thorough_walls.json")   # {"C01": [exit, wall_s], ...} recorded from the thorough runs
def cost():
    th = json.load(open(THOROUGH)) if os.path.exists(THOROUGH) else {}
    rows = ["  | property | quick: lemma tasks / paths / solver queries (solver time) / wall | thorough: exit / wall |", "  |---|---|---|"]
    for f in sorted(glob.glob(os.path.join(ROOT, "evidence", "C*.json"))):
        e = json.load(open(f)); c = e["coverage"]; pid = e["property_id"]
        t = th.get(pid)
        q = c.get("queries", {})
        rows.append(f"  | {pid} | {len(c.get('lemmas', []))} / {c.get('states', '?')} / {sum(q.values()) if isinstance(q, dict) else q} ({c.get('solver_time_s', '?')} s) / {e['wall_s']:.0f} s | " + (f"{t[0]} / {t[1]} s" if t else "not measured on the final tree") + " |")
    return "\n".join(rows) + "\n"
txt = rd("part1.md") + rd("part2.md").replace("@@FIXES@@", rd("docs_fixes.md")) + rd("part3.md").replace("@@LEMMAS@@", rd("docs_lemmas.md")).replace("@@SEEDS@@", rd("docs_seeds.md")).replace("@@COST@@", cost())
open(os.path.join(ROOT, "DESIGN.md"), "w").write(txt)
print(len(txt.splitlines()), "lines")
