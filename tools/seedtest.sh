#!/bin/bash
# usage: tools/seedtest.sh <PROP> <seed-dir containing patch.diff, demo.py> [extra vcheck args]
# Confirms the seeded change in a scratch worktree of /repo (tests still 180 pass; demo fails with / passes without),
# then runs the property's quick check against that worktree (VERIF_REPO) and reports the exit code.
set -u
PROP=$1; SEED=$(realpath $2); shift 2
WT=$(mktemp -d /tmp/seedwt.XXXXXX)
git -C /repo worktree add -q --detach "$WT" HEAD || exit 9
trap 'git -C /repo worktree remove --force "$WT" >/dev/null 2>&1; rm -rf "$WT"' EXIT
cd "$WT"
PYTHONPATH=$WT/hugr-py/src /venv/bin/python "$SEED/demo.py" >/dev/null 2>&1; D0=$?
git apply "$SEED/patch.diff" || { echo "PATCH DOES NOT APPLY"; exit 8; }
PYTHONPATH=$WT/hugr-py/src /venv/bin/python "$SEED/demo.py" >/dev/null 2>&1; D1=$?
T=$(PYTHONPATH=$WT/hugr-py/src /venv/bin/python -m pytest -q -p no:cacheprovider --timeout=900 --continue-on-collection-errors 2>&1 | tail -1)
echo "demo without change: exit $D0 ; with change: exit $D1 ; tests: $T"
cd /verif
VERIF_REPO=$WT timeout ${SEED_TIMEOUT:-900} bin/vcheck $PROP --tier quick --no-evidence "$@" > "$WT/check.log" 2>&1; RC=$?
grep -E "^VIOLATION|KNOWN-FINDING|tier=" "$WT/check.log" | cut -c1-220 | head -8
grep -A1 "^VIOLATION" "$WT/check.log" | grep "lemma=" | cut -c1-260 | head -4
echo "CHECK EXIT $RC"
