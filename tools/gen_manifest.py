#!/usr/bin/env python3
"""Regenerates /verif/MANIFEST.json from the table below (kept next to the checks it describes)."""
import json, os
ROOT = os.path.dirname(os.path.dirname(os.path.abspath(__file__)))
BASE = "cd /repo && /venv/bin/python -m pytest -ra -q -p no:cacheprovider --timeout=900 --continue-on-collection-errors"
TECH = "bounded symbolic execution of the current Python source with z3 (symx: AST interpreter, path forking by solver feasibility, per-path native replay)"
NOTE = ("trusted: z3; the symx interpreter (every explored path is re-run natively in CPython on a model of its path condition and must agree); "
        "the harness oracles, which restate the property's clauses; bounds as listed in evidence coverage.bounds")
CLAIMS = {
 "C16": ("Solver decides, for ALL integers n>=0 / index / slice bounds (LIA, no value bound), that Node indexing, slicing "
         "(unrolled up to 4/7 selected ports), iteration and port equality/hash obey the stated contract; the functions are "
         "interpreted from /repo's current source on every run.", "§6 C16"),
 "C18": ("Inductive step per BiMap operation from an arbitrary valid pre-state: (a) finite universe of 4 atoms incl. falsy 0 and '' "
         "with <=3 pairs, compared against the mathematical model; (b) maps as unbounded z3 arrays with arbitrary integer keys/values, "
         "bijection invariant instantiated at every read, post-conditions at skolem indices; plus short symbolic histories.", "§6 C18"),
 "C06": ("Every signature / port-kind / output-count rule of the statement as one lemma per operation class: rows are lists of pairwise "
         "distinct type atoms with symbolic lengths (0..2 quick, 0..3 thorough), port offsets symbolic over the whole row plus the order port; "
         "Call/LoadFunction with an instantiation whose arity is independent of the polymorphic body. Additionally the container / TailLoop / Conditional / "
         "block / Tag / CallIndirect / Call / LoadFunction rules over rows of UNBOUNDED length and arbitrary element types (z3 sequences).", "§6 C06"),
 "C07": ("Leaf bounds are symbolic enum values, so one path covers every Copyable/Any assignment; shapes (sum forms, row counts/lengths, "
         "from-params index lists, std containers) enumerated by the solver within the stated bounds.", "§6 C07"),
 "C09": ("Header decoder over every input of 0..12 symbolic bytes (all truncations, all magic values, all 2^16 format/flag pairs) and header "
         "encoder over all formats with symbolic compression level; text-encoding guard. Package round trip: see evidence (bounded pool).", "§6 C09"),
 "C13": ("One lemma per refusal named in the statement; the offending parameter (case index, tracked index, integer wire, row contents, "
         "parameter/argument counts, built-subset) is symbolic, the assertion is 'raises iff inconsistent' and 'nothing recorded'.", "§6 C13"),
 "C19": ("Real to_register_bits / register_bitstrings / collate code interpreted against an in-order replay reference; integer data values "
         "unbounded, bools symbolic; shots of <=2 (quick) / 3 (thorough) entries over a tag pool; strict flags symbolic.", "§6 C19"),
 "C02": ("Store-level round trip: the real _to_serial and _from_serial on stores with deleted nodes, index reuse, metadata, multi-links and order links "
         "(links symbolic), compared with the renumbered original; JSON text fixed point on the native replay of every path. Operation attributes: C05.", "§6 C02"),
 "C03": ("Index sanity of the written document on the C02 store states; port addressing (value ports by signature position, static port after the "
         "value inputs, order edge after those) for every connected-subset of a node's ports; strict-schema validation of each concretised document.", "§6 C03"),
 "C04": ("Inductive step per store operation from a pre-state defined by N nodes and E individually optional symbolic links (unbounded port offsets, "
         "sub-offsets = insertion ranks, seeded into a symbolic association list), every query compared with the sequential multigraph model.", "§6 C04"),
 "C05": ("Every type / param / arg / value / operation class built with symbolic string, integer and bound leaves, encoded by the real _to_serial, decoded "
         "by the real deserialize(): attribute-by-attribute equality, same document, same derived facts; foreign (hugr-core style) document re-save.", "§6 C05"),
 "C08": ("insert_hugr from symbolic store states of A and B (B with holes, metadata, multi- and order links, unbounded offsets): mapping is a bijection "
         "onto fresh nodes preserving ops, hierarchy, child order, metadata, counts and ordered per-port link lists; A and B otherwise unchanged; insert_* wrappers.", "§6 C08"),
 "C15": ("Tracked builder vs explicit-wire twin on symbolic programs (tracked indices symbolic, holes, mixed int/wire arguments, metadata): same tracked "
         "state after every command and the same HUGR node for node, link for link; index discipline of track/untrack.", "§6 C15"),
 "C10": ("Extension round trip with symbolic descriptions / misc values / bounds / from-params indices / binary flag (field by field, same document up "
         "to the order of requirement sets); every op def owns and requires its extension for symbolic prior requirement lists; bundled std files vs "
         "the specification directory and the typed helpers (concrete side conditions, listed as such in evidence).", "§6 C10"),
 "C11": ("Resolution of type expressions (depth <= 2/3) and custom operations against registries with symbolic membership: resolved iff held, every depth "
         "reached, nothing invented, wire form / model / bounds / signatures unchanged, idempotent; Hugr.resolve_extensions touches only custom nodes.", "§6 C11"),
 "C14": ("Every helper-built value expression (depth <= 1/2; int widths, array/list/static-array constants, function constants) checked against a "
         "transcription of hugr-core's Value::validate / SumType::check_type; Const static port and LoadConstant agree with the reported type.", "§6 C14"),
 "C17": ("SMT (z3) equivalence, per $defs entry, of each of the four published schema files with the schema regenerated from the current pydantic models "
         "under the same config; $ref handled coinductively, so the verdict covers documents of any size; every difference is concretised and must be "
         "confirmed by jsonschema on both documents before it is reported; defaults / discriminators / required sets / version string compared too.", "§6 C17"),
 "C12": ("Real exporter interpreted on 8 builder templates and a parametrised module (256 variants) and checked against a transcription of the statement / "
         "export.rs rules (value-port lists, link-name partition, function symbols, order hints with keys, regions mirror hierarchy, metadata); "
         "link-name partition additionally over solver-chosen link sets; binding attribute names extracted from the Rust source each run.", "§6 C12"),
 "C20": ("Real DotRenderer on 8 builder templates x 6 configurations, on container-rooted HUGRs and on solver-chosen store shapes; the DOT source is parsed back: one node statement "
         "per node with display name and one cell per counted port, clusters nested as the hierarchy, one edge per link with the right endpoints and type "
         "label, store unchanged, configurations differ only in colours / name qualification. (Solver = choice space only; stated in evidence.)", "§6 C20"),
 "C01": ("Bounded builder programs (17 step kinds, solver-chosen steps and wires; 8 templates; insert_* wrappers) serialised by the real to_json and judged "
         "by a Python transcription of hugr-core's validation rules (children, rows, port counts, edge kinds/types, connectivity/linearity, acyclicity, "
         "Ext/Dom edges with dominance, constants); the per-mechanism lemmas are discharged under C03/C06/C13/C14/C16.", "§6 C01"),
}
NA_PENDING = "not yet built in this session (design in DESIGN.md §6); no claim is made"
def main():
    props = [json.loads(l) for l in open(os.path.join(ROOT, "properties.jsonl"))]
    checks, na = [], []
    for p in props:
        pid = p["id"]
        if pid in CLAIMS:
            text, ref = CLAIMS[pid]
            cat = "other" if pid == "C17" else "model_checking"
            checks.append({
                "property_id": pid,
                "quick_cmd": f"bin/vcheck {pid} --tier quick",
                "thorough_cmd": f"bin/vcheck {pid} --tier thorough",
                "evidence_file": f"evidence/{pid}.json",
                "replay_cmd_template": "bin/vcheck replay {path}",
                "engine": "symx",
                "level_claimed": {"category": cat, "text": text, "design_ref": ref},
                "level_note": NOTE,
                "technique": TECH if pid != "C17" else "JSON-Schema -> SMT (z3) per-definition equivalence of published vs regenerated schema, witnesses confirmed with jsonschema",
            })
        else:
            na.append({"property_id": pid, "reason": NA.get(pid, NA_PENDING)})
    m = {
        "version": 1,
        "setup_cmd": "bin/vcheck --setup",
        "hooks": {"guard": "CQCL_HUGR_PYTHON_VERIF", "enable": "none needed: checks interpret /repo/hugr-py/src directly (no hooks in /repo)",
                  "baseline_off_cmd": BASE, "source_commits": [], "add_only": True},
        "engines": [{"name": "symx", "path": "vrf/symx", "serves_properties": sorted(CLAIMS),
                     "kind_free_text": "AST-level symbolic interpreter for hugr-py + z3 (wheel 5.1.0); custom SMT encodings for C17"}],
        "checks": checks,
        "not_applicable": na,
        "notes": "exit 0 holds / 1 VIOLATION (reproduced natively) / 2 inconclusive. Known findings: known_findings.json.",
    }
    json.dump(m, open(os.path.join(ROOT, "MANIFEST.json"), "w"), indent=1)
NA = {}
if __name__ == "__main__":
    main()
