#!/bin/bash
# run every claimed check (quick or $1 tier) serially; summary to stdout
TIER=${1:-quick}
cd "$(dirname "$0")/.."
for p in $(python3 -c "import json;print(' '.join(c['property_id'] for c in json.load(open('MANIFEST.json'))['checks']))"); do
  s=$(date +%s)
  bin/vcheck $p --tier $TIER > /tmp/t/run_$p.log 2>&1; rc=$?
  echo "$p exit=$rc wall=$(( $(date +%s) - s ))s $(grep -c '^VIOLATION' /tmp/t/run_$p.log) violations"
done
