#!/usr/bin/env python3
"""Re-test every seeded change under /verif/seeded against the current checks; write meta.json per seed and docs_src/docs_seeds.md.
usage: tools/seedall.py [ids...]   (default: all)"""
import json, os, re, subprocess, sys, tempfile, shutil, concurrent.futures as cf
ROOT = os.path.dirname(os.path.dirname(os.path.abspath(__file__)))
SEEDED = os.path.join(ROOT, "seeded")

def sh(cmd, **kw):
    return subprocess.run(cmd, shell=True, capture_output=True, text=True, **kw)

def test(sid):
    d = os.path.join(SEEDED, sid)
    prop = sid.split("-")[0]
    wt = tempfile.mkdtemp(prefix="seedwt.", dir="/tmp")
    os.rmdir(wt)
    r = sh(f"git -C /repo worktree add -q --detach {wt} HEAD")
    meta = {"seed": sid, "property": prop}
    try:
        env = f"PYTHONPATH={wt}/hugr-py/src"
        d0 = sh(f"cd {wt} && {env} /venv/bin/python {d}/demo.py").returncode
        ap = sh(f"cd {wt} && git apply {d}/patch.diff")
        if ap.returncode != 0:
            ap = sh(f"cd {wt} && git apply --3way {d}/patch.diff")
        if ap.returncode != 0:
            meta.update({"applies": False, "note": "patch no longer applies to the repaired tree: " + ap.stderr.strip()[:200]})
            return meta
        d1 = sh(f"cd {wt} && {env} /venv/bin/python {d}/demo.py").returncode
        t = sh(f"cd {wt} && {env} /venv/bin/python -m pytest -q -p no:cacheprovider --timeout=900 --continue-on-collection-errors 2>&1 | tail -1").stdout.strip()
        chk = sh(f"cd {ROOT} && VERIF_REPO={wt} timeout 2700 bin/vcheck {prop} --tier quick --no-evidence")
        lines = chk.stdout.splitlines()
        viol = [l for l in lines if l.startswith("VIOLATION")]
        lem = sorted({re.search(r"lemma=([\w\[\]\(\), .']+?) clause=([\w:.\-]+)", l).group(1).split("[")[0] + "/" + re.search(r"clause=([\w:.\-]+)", l).group(1)
                      for l in lines if l.strip().startswith("lemma=") and re.search(r"lemma=.* clause=", l)})
        meta.update({"applies": True, "demo_exit_without_change": d0, "demo_exit_with_change": d1, "test_suite_with_change": t,
                     "check_cmd": f"VERIF_REPO=<scratch worktree with patch> bin/vcheck {prop} --tier quick", "check_exit": chk.returncode,
                     "violations_reported": len(viol), "caught_by": lem[:8], "caught": chk.returncode == 1})
        return meta
    finally:
        sh(f"git -C /repo worktree remove --force {wt}")
        shutil.rmtree(wt, ignore_errors=True)

def needs(sid):
    p = os.path.join(SEEDED, sid, "notes.md")
    if not os.path.exists(p):
        return ""
    txt = open(p).read()
    return " ".join(txt.split())[:600]

def main():
    ids = sys.argv[1:] or sorted(os.listdir(SEEDED))
    ids = [i for i in ids if os.path.exists(os.path.join(SEEDED, i, "patch.diff"))]
    def run(sid):
        m = test(sid)
        print("..", m["seed"], "applies" if m.get("applies") else "NO-APPLY", "caught" if m.get("caught") else "MISSED", m.get("check_exit"), flush=True)
        return m
    with cf.ThreadPoolExecutor(max_workers=int(os.environ.get("SEED_WORKERS", "3"))) as ex:
        metas = list(ex.map(run, ids))
    for m in metas:
        m["what_it_breaks_and_needs"] = needs(m["seed"])
        m["ran"] = "tools/seedall.py: demo without/with change, test-suite summary with change, property's quick check against the patched scratch worktree"
        json.dump(m, open(os.path.join(SEEDED, m["seed"], "meta.json"), "w"), indent=1)
        print(m["seed"], "applies" if m.get("applies") else "NO-APPLY", "caught" if m.get("caught") else "MISSED", m.get("check_exit"), m.get("caught_by", [])[:2])
    # table over all seeds with meta
    rows = ["| seed | property | demo (without / with) | tests with change | check exit | caught by (lemma/clause) |", "|---|---|---|---|---|---|"]
    for sid in sorted(os.listdir(SEEDED)):
        mp = os.path.join(SEEDED, sid, "meta.json")
        if not os.path.exists(mp):
            continue
        m = json.load(open(mp))
        if not m.get("applies"):
            rows.append(f"| {sid} | {m['property']} | — | — | — | {m.get('note','')} |")
            continue
        rows.append(f"| {sid} | {m['property']} | {m['demo_exit_without_change']} / {m['demo_exit_with_change']} | {m['test_suite_with_change'].split(' in ')[0]} | {m['check_exit']} | {'; '.join(m['caught_by'][:3]) if m['caught'] else '**missed**'} |")
    open(os.path.join(ROOT, "docs_src/docs_seeds.md"), "w").write("\n".join(rows) + "\n")

if __name__ == "__main__":
    main()
