#!/usr/bin/env python3
"""Emit markdown tables (lemmas per property with bounds; fixed findings) for DESIGN.md. Run with the venv python via bin/vcheck env."""
import importlib, json, os, sys
ROOT = os.path.dirname(os.path.dirname(os.path.abspath(__file__)))
sys.path[:0] = [ROOT, "/repo/hugr-py/src"]
from vrf import lemma as L
out = []
for i in range(1, 21):
    p = f"C{i:02d}"
    try:
        importlib.import_module(f"vrf.harness.{p.lower()}")
    except Exception as e:
        out.append(f"<!-- {p}: {e} -->")
        continue
    out.append(f"\n#### {p}\n")
    out.append("| lemma | tasks (quick) | unbounded in | bounds | outside the claim |")
    out.append("|---|---|---|---|---|")
    for lm in L.REGISTRY.get(p, []):
        n = len(lm.param_list())
        out.append(f"| `{lm.name}` | {n} | {lm.unbounded or '—'} | {lm.bounds or '—'} | {lm.outside or '—'} |")
open(os.path.join(ROOT, "docs_src/docs_lemmas.md"), "w").write("\n".join(out) + "\n")
kf = json.load(open(os.path.join(ROOT, "known_findings.json")))
rows = ["| property | commit | lemma / clause | what failed |", "|---|---|---|---|"]
for f in kf["findings"]:
    rows.append(f"| {f['property']} | `{f.get('commit','')}` | `{f['lemma']}` / `{f['clause']}`{' [' + f['predicate'] + ']' if f.get('predicate') else ''} | {f['what'].split(' ', 3)[-1] if f['what'].startswith('fixed:') else f['what']} |")
open(os.path.join(ROOT, "docs_src/docs_fixes.md"), "w").write("\n".join(rows) + "\n")
print(len(kf["findings"]), "findings")
